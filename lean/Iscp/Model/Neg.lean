import Iscp.Model.Seg
/-
M-Neg — executable model of the negotiation-parameter codecs:
  transport/negotiation.go (Validate, CompressConfig, MarshalKeyValues, UnmarshalKeyValues),
  transport/quic/negotiation.go (Marshal, Unmarshal, readKeyValues),
  transport/{websocket,webtransport}/negotiation.go (URL values),
  transport/dialer.go (DialConfig.NegotiationParams), transport/compress/compress.go.

Strings are byte lists (Go strings are byte strings).  The behaviour of encoding/json that the
key/value codec relies on is mirrored here (struct tags with omitempty and ,string; exact-then-folded
key matching; map keys applied in sorted order; invalid UTF-8 coerced to U+FFFD; the literal rules of
,string fields) and pinned to the real library by the correspondence check.
-/
namespace Iscp.Neg
open Iscp.Seg (Bytes be16 rd16)

/-! ### UTF-8 (Go's utf8.Valid / the coercion done by json.Marshal) -/

def isCont (b : Nat) : Bool := 128 ≤ b && b ≤ 191

/-- size of the well-formed UTF-8 sequence at the head of the input, `none` if the head byte does not start one -/
def utf8Step : Bytes → Option Nat
  | [] => none
  | b0 :: r =>
    if b0 < 128 then some 1
    else if 194 ≤ b0 && b0 ≤ 223 then
      match r with
      | b1 :: _ => if isCont b1 then some 2 else none
      | _ => none
    else if 224 ≤ b0 && b0 ≤ 239 then
      match r with
      | b1 :: b2 :: _ =>
        let lo := if b0 = 224 then 160 else 128
        let hi := if b0 = 237 then 159 else 191
        if lo ≤ b1 && b1 ≤ hi && isCont b2 then some 3 else none
      | _ => none
    else if 240 ≤ b0 && b0 ≤ 244 then
      match r with
      | b1 :: b2 :: b3 :: _ =>
        let lo := if b0 = 240 then 144 else 128
        let hi := if b0 = 244 then 143 else 191
        if lo ≤ b1 && b1 ≤ hi && isCont b2 && isCont b3 then some 4 else none
      | _ => none
    else none

def utf8ValidF : Nat → Bytes → Bool
  | _, [] => true
  | 0, _ => false
  | f + 1, bs => match utf8Step bs with
    | some n => utf8ValidF f (bs.drop n)
    | none => false
def utf8Valid (bs : Bytes) : Bool := utf8ValidF bs.length bs

/-- json.Marshal's string coercion: every byte that does not start a well-formed sequence becomes U+FFFD -/
def sanitizeF : Nat → Bytes → Bytes
  | _, [] => []
  | 0, _ => []
  | f + 1, bs => match utf8Step bs with
    | some n => bs.take n ++ sanitizeF f (bs.drop n)
    | none => [239, 191, 189] ++ sanitizeF f (bs.drop 1)
def sanitize (bs : Bytes) : Bytes := sanitizeF bs.length bs

/-! ### parameters -/

structure Params where
  enc : Bytes
  comp : Bytes
  clevel : Option Int
  cwinbits : Option Int
  tid : Bytes
  reconnect : Bool
  tgid : Bytes
  tgcount : Int
  tgidx : Int
deriving DecidableEq, Repr

def Params.zero : Params := ⟨[], [], none, none, [], false, [], 0, 0⟩

def ascii (s : String) : Bytes := s.toList.map Char.toNat

def tEnc := ascii "enc"
def tComp := ascii "comp"
def tClevel := ascii "clevel"
def tCwinbits := ascii "cwinbits"
def tTid := ascii "tid"
def tReconnect := ascii "reconnect"
def tTgid := ascii "tgid"
def tTgcount := ascii "tgcount"
def tTgidx := ascii "tgidx"

def natDigits : Nat → Nat → List Nat
  | 0, _ => [48]
  | f + 1, n => if n < 10 then [48 + n] else natDigits f (n / 10) ++ [48 + n % 10]
/-- decimal rendering (`strconv.Itoa`) -/
def showInt (i : Int) : Bytes :=
  if i < 0 then 45 :: natDigits i.natAbs i.natAbs else natDigits i.natAbs i.natAbs

def parseDigits : Bytes → Nat → Option Nat
  | [], acc => some acc
  | c :: r, acc => if 48 ≤ c ∧ c ≤ 57 then parseDigits r (acc * 10 + (c - 48)) else none

def int64Min : Int := -9223372036854775808
def int64Max : Int := 9223372036854775807

/-- strconv.ParseInt(s, 10, 64) restricted to inputs starting with '-' or a digit -/
def parseInt (bs : Bytes) : Option Int :=
  match bs with
  | [] => none
  | 45 :: r => if r.isEmpty then none else
      match parseDigits r 0 with
      | some n => if -(n : Int) ≥ int64Min then some (-(n : Int)) else none
      | none => none
  | _ => match parseDigits bs 0 with
      | some n => if (n : Int) ≤ int64Max then some n else none
      | none => none

inductive Quoted | null | int (i : Int) | err
deriving DecidableEq, Repr

/-- encoding/json literalStore(fromQuoted = true) for an int-kinded field -/
def parseQuoted (v : Bytes) : Quoted :=
  match v with
  | [] => .err
  | c :: _ =>
    if c = 110 then (if v = ascii "null" then .null else .err)
    else if c = 116 ∨ c = 102 ∨ c = 34 then .err
    else if c = 45 ∨ (48 ≤ c ∧ c ≤ 57) then
      match parseInt v with
      | some i => .int i
      | none => .err
    else .err

/-- MarshalKeyValues: json.Marshal with omitempty / ,string, read back as a string map -/
def marshalKV (p : Params) : List (Bytes × Bytes) :=
  (if p.enc = [] then [] else [(tEnc, sanitize p.enc)]) ++
  (if p.comp = [] then [] else [(tComp, sanitize p.comp)]) ++
  (match p.clevel with | none => [] | some i => [(tClevel, showInt i)]) ++
  (match p.cwinbits with | none => [] | some i => [(tCwinbits, showInt i)]) ++
  (if p.tid = [] then [] else [(tTid, sanitize p.tid)]) ++
  (if p.reconnect then [(tReconnect, ascii "true")] else []) ++
  (if p.tgid = [] then [] else [(tTgid, sanitize p.tgid)]) ++
  (if p.tgcount = 0 then [] else [(tTgcount, showInt p.tgcount)]) ++
  (if p.tgidx = 0 then [] else [(tTgidx, showInt p.tgidx)])

/-- encoding/json foldName restricted to what can reach an ASCII tag: ASCII upper-casing and U+017F (long s) -> 'S' -/
def foldKey : Bytes → Bytes
  | [] => []
  | 197 :: 191 :: r => 83 :: foldKey r
  | c :: r => (if 97 ≤ c ∧ c ≤ 122 then c - 32 else c) :: foldKey r

inductive Field | enc | comp | clevel | cwinbits | tid | reconnect | tgid | tgcount | tgidx
deriving DecidableEq, Repr

def tags : List (Bytes × Field) :=
  [(tEnc, .enc), (tComp, .comp), (tClevel, .clevel), (tCwinbits, .cwinbits), (tTid, .tid),
   (tReconnect, .reconnect), (tTgid, .tgid), (tTgcount, .tgcount), (tTgidx, .tgidx)]

def lookupField (k : Bytes) : Option Field :=
  match tags.find? (fun t => t.1 = k) with
  | some t => some t.2
  | none => match tags.find? (fun t => foldKey t.1 = foldKey k) with
    | some t => some t.2
    | none => none

/-- lexicographic byte order (json.Marshal sorts map keys) -/
def bytesLt : Bytes → Bytes → Bool
  | [], [] => false
  | [], _ :: _ => true
  | _ :: _, [] => false
  | a :: r, b :: s => if a < b then true else if b < a then false else bytesLt r s

def insertKV (e : Bytes × Bytes) : List (Bytes × Bytes) → List (Bytes × Bytes)
  | [] => [e]
  | x :: r => if bytesLt e.1 x.1 then e :: x :: r else x :: insertKV e r
def sortKV (l : List (Bytes × Bytes)) : List (Bytes × Bytes) := l.foldr insertKV []

/-- one key/value applied to the struct; `none` = a decoding error is recorded -/
def applyKV (p : Params) (k v : Bytes) : Option Params :=
  if k = tReconnect then
    if v = ascii "true" then some { p with reconnect := true }
    else if v = ascii "false" then some { p with reconnect := false }
    else none
  else match lookupField k with
    | none => some p
    | some .enc => some { p with enc := sanitize v }
    | some .comp => some { p with comp := sanitize v }
    | some .tid => some { p with tid := sanitize v }
    | some .tgid => some { p with tgid := sanitize v }
    | some .reconnect => none
    | some .clevel => match parseQuoted v with
      | .null => some { p with clevel := none }
      | .int i => some { p with clevel := some i }
      | .err => none
    | some .cwinbits => match parseQuoted v with
      | .null => some { p with cwinbits := none }
      | .int i => some { p with cwinbits := some i }
      | .err => none
    | some .tgcount => match parseQuoted v with
      | .null => some p
      | .int i => some { p with tgcount := i }
      | .err => none
    | some .tgidx => match parseQuoted v with
      | .null => some p
      | .int i => some { p with tgidx := i }
      | .err => none

def applyAll (p : Params) : List (Bytes × Bytes) → Option Params
  | [] => some p
  | (k, v) :: r => match applyKV p k v with
    | some p' => applyAll p' r
    | none => none

/-- UnmarshalKeyValues into `p0` (the keys of a Go map are distinct) -/
def unmarshalKV (p0 : Params) (kvs : List (Bytes × Bytes)) : Option Params :=
  applyAll p0 (sortKV kvs)

/-! ### URL values (websocket / webtransport) -/

def marshalURL (p : Params) : List (Bytes × List Bytes) := (marshalKV p).map fun e => (e.1, [e.2])

def urlToKV : List (Bytes × List Bytes) → Option (List (Bytes × Bytes))
  | [] => some []
  | (k, vs) :: r =>
    if k = [] then none else
    match vs with
    | [v] => match urlToKV r with
      | some l => some ((k, v) :: l)
      | none => none
    | _ => none

def unmarshalURL (p0 : Params) (vals : List (Bytes × List Bytes)) : Option Params :=
  match urlToKV vals with
  | some kvs => unmarshalKV p0 kvs
  | none => none

/-! ### QUIC binary form -/

def marshalBinKV : List (Bytes × Bytes) → Bytes
  | [] => []
  | (k, v) :: r => be16 k.length ++ k ++ be16 v.length ++ v ++ marshalBinKV r

def marshalBin (p : Params) : Bytes := marshalBinKV (marshalKV p)

/-- readKeyValues; fuel = input length (every record consumes at least 4 bytes) -/
def readKVF : Nat → Bytes → List (Bytes × Bytes) → Option (List (Bytes × Bytes))
  | _, [], acc => some acc.reverse
  | 0, _, _ => none
  | f + 1, bs, acc =>
    match bs with
    | a :: b :: r =>
      let kl := rd16 a b
      if kl = 0 then none
      else if r.length < kl then none
      else
        let k := r.take kl
        let r2 := r.drop kl
        if !utf8Valid k then none else
        match r2 with
        | c :: d :: r3 =>
          let vl := rd16 c d
          if r3.length < vl then none
          else
            let v := r3.take vl
            if !utf8Valid v then none
            else if acc.any (fun e => e.1 = k) then none
            else readKVF f (r3.drop vl) ((k, v) :: acc)
        | _ => none
    | _ => none

def readKV (bs : Bytes) : Option (List (Bytes × Bytes)) := readKVF bs.length bs []

def unmarshalBin (p0 : Params) (bs : Bytes) : Option Params :=
  match readKV bs with
  | some kvs => unmarshalKV p0 kvs
  | none => none

/-! ### Validate and CompressConfig -/

def tJson := ascii "json"
def tProto := ascii "proto"
def tPerMessage := ascii "per-message"
def tTakeover := ascii "context-takeover"
def defaultLevel : Int := 6

/-- Validate: `none` = rejected; otherwise the (possibly defaulted) parameters -/
def validate (p : Params) : Option Params :=
  if ¬ (p.enc = [] ∨ p.enc = tJson ∨ p.enc = tProto) then none
  else if ¬ (p.comp = [] ∨ p.comp = tPerMessage ∨ p.comp = tTakeover) then none
  else
    let p' := if p.comp ≠ [] ∧ p.clevel = none then { p with clevel := some defaultLevel } else p
    match p'.clevel with
    | some l => if l < 0 ∨ l > 9 then none else
      match p'.cwinbits with
      | some w => if w < 0 ∨ w > 32 then none else some p'
      | none => some p'
    | none =>
      match p'.cwinbits with
      | some w => if w < 0 ∨ w > 32 then none else some p'
      | none => some p'

structure Config where
  enable : Bool
  level : Int
  disableTakeover : Bool
  windowBits : Int
deriving DecidableEq, Repr

/-- NegotiationParams.CompressConfig(base) -/
def compressConfig (p : Params) (base : Config) : Config :=
  match p.clevel with
  | none => { base with enable := false }
  | some l =>
    if l = 0 then { base with enable := false }
    else
      let b1 := { base with enable := true, level := l }
      let b2 := match p.cwinbits with
        | some w => { b1 with windowBits := w }
        | none => b1
      if p.comp = tPerMessage then { b2 with disableTakeover := true }
      else if p.comp = tTakeover then { b2 with disableTakeover := false }
      else b2

/-- what the transports look at: with compression disabled every other setting is ignored -/
def effective (c : Config) : Option (Int × Bool × Int) :=
  if c.enable then some (c.level, c.disableTakeover, c.windowBits) else none

/-- compress.Config.Type() -/
def Config.type (c : Config) : Bytes := if c.disableTakeover then tPerMessage else tTakeover

structure DialConfig where
  compress : Config
  enc : Bytes
  tid : Bytes
  reconnect : Bool
  tgid : Bytes
  tgcount : Int
  tgidx : Int

/-- DialConfig.NegotiationParams -/
def DialConfig.params (c : DialConfig) : Params :=
  ⟨c.enc, c.compress.type, some c.compress.level, some c.compress.windowBits, c.tid, c.reconnect, c.tgid, c.tgcount, c.tgidx⟩

end Iscp.Neg
