/-
M-Seg — executable model of internal/segment (sender.go, read_buffer.go) and of the
datagram glue in transport/quic and transport/webtransport.

Bytes are modelled as `Nat` values; everything produced by the header encoder is
proved `< 256` (Props/C14), payload bytes are opaque data that are only moved around.
Core Lean only (the Driver links this file).
-/
namespace Iscp.Seg

abbrev Bytes := List Nat

/-- `binary.BigEndian.PutUint16` of a value (the Go code converts with `uint16(..)`, i.e. mod 2^16). -/
def be16 (n : Nat) : Bytes := [n / 256 % 256, n % 256]
/-- `binary.BigEndian.PutUint32`. -/
def be32 (n : Nat) : Bytes := [n / 16777216 % 256, n / 65536 % 256, n / 256 % 256, n % 256]
def rd16 (a b : Nat) : Nat := a * 256 + b
def rd32 (a b c d : Nat) : Nat := ((a * 256 + b) * 256 + c) * 256 + d

/-- One datagram: header fields and payload. -/
structure Dg where
  seq : Nat
  maxIdx : Nat
  idx : Nat
  payload : Bytes
deriving DecidableEq, Repr

/-- sender.go `send`: 8-byte header seq(4) | maxIndex(2) | index(2), big endian, then payload. -/
def Dg.encode (d : Dg) : Bytes := be32 d.seq ++ be16 d.maxIdx ++ be16 d.idx ++ d.payload

/-- read_buffer.go `Receive` header parsing.  `none` = shorter than the header. -/
def decodeDg : Bytes → Option Dg
  | a :: b :: c :: d :: e :: f :: g :: h :: rest => some ⟨rd32 a b c d, rd16 e f, rd16 g h, rest⟩
  | _ => none

/-- payload of segment `i` of message `m` cut with payload size `P`, last index `k` (sender.go loop body). -/
def segPayload (P : Nat) (m : Bytes) (k i : Nat) : Bytes :=
  if i = k then m.drop (i * P) else (m.drop (i * P)).take P

/-- sender.go `SendTo`: the datagrams of one message, or `none` = refused (too many segments). -/
def segments (P seq : Nat) (m : Bytes) : Option (List Dg) :=
  if m.length ≤ P then some [⟨seq, 0, 0, m⟩]
  else
    let k := m.length / P
    if k > 65535 then none
    else some ((List.range (k + 1)).map fun i => ⟨seq, k, i, segPayload P m k i⟩)

/-- One reassembly buffer (`ReadBuffer`): `Msgs` slots (`none` = nil slice) and `SegCount`. -/
structure Slot where
  segCount : Nat
  msgs : List (Option Bytes)
  expiredAt : Nat
deriving DecidableEq, Repr

/-- `ReadBuffer.build`: concatenation of all slots (a nil slot contributes nothing). -/
def build (msgs : List (Option Bytes)) : Bytes := (msgs.map fun o => o.getD []).flatten

/-- `ReadBuffer.add`. -/
def Slot.add (s : Slot) (idx : Nat) (p : Bytes) : Slot × Option Bytes :=
  if s.msgs.length ≤ idx then (s, none)
  else
    let s' := { s with segCount := s.segCount + 1, msgs := s.msgs.set idx (some p) }
    if s'.msgs.length = s'.segCount then (s', some (build s'.msgs)) else (s', none)

/-- association-list helpers (keys = sequence numbers) -/
def alLookup {α} (k : Nat) : List (Nat × α) → Option α
  | [] => none
  | (k', v) :: r => if k' = k then some v else alLookup k r
def alErase {α} (k : Nat) (l : List (Nat × α)) : List (Nat × α) := l.filter fun e => e.1 ≠ k
def alInsert {α} (k : Nat) (v : α) (l : List (Nat × α)) : List (Nat × α) := (k, v) :: alErase k l

/-- `ReadBuffers`. -/
structure RB where
  bufs : List (Nat × Slot)
  expiry : Nat
deriving Repr

inductive RecvOut
  | none
  | msg (seq : Nat) (bs : Bytes)
deriving DecidableEq, Repr

/-- number of slots the receiver allocates for an announced last index
    (`make([][]byte, int(maxSegIdx)+1)`). -/
def slotCount (maxIdx : Nat) : Nat := maxIdx + 1

/-- `ReadBuffers.Receive` on an already parsed datagram. -/
def RB.receiveDg (rb : RB) (now : Nat) (d : Dg) : RB × RecvOut :=
  let slot? : Option Slot := match alLookup d.seq rb.bufs with
    | some s => some s
    | none => if d.idx > d.maxIdx then none            -- malformed first datagram: no buffer is created
              else some ⟨0, List.replicate (slotCount d.maxIdx) none, 0⟩
  match slot? with
  | none => (rb, .none)
  | some slot0 =>
    let slot1 := { slot0 with expiredAt := now + rb.expiry }
    match slot1.add d.idx d.payload with
    | (_, some m) => ({ rb with bufs := alErase d.seq rb.bufs }, .msg d.seq m)
    | (s', none) => ({ rb with bufs := alInsert d.seq s' rb.bufs }, .none)

/-- `ReadBuffers.Receive`: a datagram shorter than the header is discarded. -/
def RB.receive (rb : RB) (now : Nat) (bs : Bytes) : RB × RecvOut :=
  match decodeDg bs with
  | none => (rb, .none)
  | some d => rb.receiveDg now d

/-- `ReadBuffers.RemoveExpired`: drop every buffer with `now.After(ExpiredAt)`. -/
def RB.removeExpired (rb : RB) (now : Nat) : RB :=
  { rb with bufs := rb.bufs.filter fun e => ¬ (now > e.2.expiredAt) }

/-- transport `sequenceNumber`: starts at MaxUint32, `atomic.AddUint32(&n, 1)` returns the new value. -/
def seqNext (n : Nat) : Nat := (n + 1) % 4294967296
def seqInit : Nat := 4294967295
/-- the sequence number used for the `i`-th message (0-based) sent on a transport -/
def seqAt : Nat → Nat
  | 0 => seqNext seqInit
  | i + 1 => seqNext (seqAt i)

end Iscp.Seg
