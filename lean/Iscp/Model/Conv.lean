/-
M-Conv (scalar part) — the value conversions the hand-written converters of encoding/convert perform on every field kind,
and the canonical form they induce.  (The per-message field plumbing is covered by the regenerated enum tables, by the
reflection-driven round-trip harness on every message type in both encodings, and by the decoder fuzz of C12.)

Durations are nanoseconds (Go time.Duration), wire fields are unsigned 32-bit seconds / milliseconds.
-/
namespace Iscp.Conv

def nsPerS : Nat := 1000000000
def nsPerMs : Nat := 1000000

/-- `uint32(d.Seconds())` and back `time.Duration(s) * time.Second` -/
def durToWireS (d : Nat) : Nat := (d / nsPerS) % 4294967296
def durFromWireS (s : Nat) : Nat := s * nsPerS
/-- `uint32(d.Milliseconds())` and back -/
def durToWireMs (d : Nat) : Nat := (d / nsPerMs) % 4294967296
def durFromWireMs (ms : Nat) : Nat := ms * nsPerMs

/-- canonical form of a duration field: truncated to the wire resolution -/
def canonS (d : Nat) : Nat := d / nsPerS * nsPerS
def canonMs (d : Nat) : Nat := d / nsPerMs * nsPerMs

/-- the explicit guard: the value fits the unsigned 32-bit wire field (about 136 years in seconds, 49.7 days in milliseconds).
    Outside it the implementation does not reject: the millisecond conversion wraps (uint32 of an int64), the second conversion
    goes through float64 and is implementation-defined; the model wraps in both, the theorems hold under the guard only. -/
def fitsS (d : Nat) : Prop := d / nsPerS < 4294967296
def fitsMs (d : Nat) : Prop := d / nsPerMs < 4294967296
instance (d : Nat) : Decidable (fitsS d) := by unfold fitsS; infer_instance
instance (d : Nat) : Decidable (fitsMs d) := by unfold fitsMs; infer_instance

/-- Go's `int64(x)` of a mathematical integer: two's-complement wrap into [-2^63, 2^63) -/
def wrap64 (n : Int) : Int := (n + 9223372036854775808) % 18446744073709551616 - 9223372036854775808
/-- a data point's elapsed time (toDataPointsProto / toDataPoints): `int64(v.ElapsedTime)` out, `time.Duration(v.ElapsedTime)`
    back - a signed 64-bit nanosecond count at both ends, no change of resolution, no clamping -/
def elapsedToWire (d : Int) : Int := wrap64 d
def elapsedFromWire (w : Int) : Int := wrap64 w
def fitsI64 (d : Int) : Prop := -9223372036854775808 ≤ d ∧ d < 9223372036854775808

/-- table lookup as the converters' switch statements do it -/
def lookup (t : List (Int × Int)) (k : Int) : Option Int := (t.find? (·.1 = k)).map (·.2)

/-- validateMessageSize (encoding/main.go): 0 = no limit; otherwise sizes above the maximum are rejected -/
def sizeGate (max n : Nat) : Bool := max = 0 || n ≤ max

end Iscp.Conv
