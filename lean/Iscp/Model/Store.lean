import Iscp.Model.Data
/-
M-Store — executable model of iscp/storage.go: inmemSentStorage (Store/Remove/List/Clear keyed by
stream id and sequence number) and the inmemSentStorageNoPayload wrapper.
-/
namespace Iscp.Store
open Iscp

/-- stream id ↦ (sequence number ↦ groups) -/
abbrev St := List (Nat × List (Nat × Groups))

inductive Op
  | store (sid seq : Nat) (v : Groups)
  | remove (sid seq : Nat)
  | list (sid : Nat)
  | clear (sid : Nat)
deriving Repr

inductive Out
  | ok
  | removed (v : Groups)
  | listed (m : List (Nat × Groups))
  | notFoundStream
  | notFoundSeq
deriving DecidableEq, Repr

/-- `noPayload = true` is the inmemSentStorageNoPayload wrapper: payloads are dropped on Store -/
def step (noPayload : Bool) (s : St) : Op → St × Out
  | .store sid seq v =>
    let v' := if noPayload then v.withoutPayload else v
    let m := (alGet sid s).getD []
    (alPut sid (alPut seq v' m) s, .ok)
  | .remove sid seq =>
    match alGet sid s with
    | none => (s, .notFoundStream)
    | some m => match alGet seq m with
      | none => (s, .notFoundSeq)
      | some v => (alPut sid (alDel seq m) s, .removed v)
  | .list sid =>
    match alGet sid s with
    | none => (s, .notFoundStream)
    | some m => (s, .listed m)
  | .clear sid => (alDel sid s, .ok)

/-- what stream `sid` can observe of the storage: its own map, as a lookup function on sequence numbers -/
def view (s : St) (sid : Nat) : Option (List (Nat × Groups)) := alGet sid s

def run (noPayload : Bool) (s : St) : List Op → St
  | [] => s
  | op :: r => run noPayload (step noPayload s op).1 r

def Op.sid : Op → Nat
  | .store sid _ _ => sid
  | .remove sid _ => sid
  | .list sid => sid
  | .clear sid => sid

end Iscp.Store
