import Iscp.Model.Up
/-
M-Down — executable model of the downstream of iscp/downstream.go (ReadDataPoints: alias assignment for full infos/ids,
resolution, result buffering; flushAck: one ack with strictly increasing ack ids carrying results and alias announcements;
Close: final flush before the close request; ReadMetadata: ack on read) with wire/stream_id_generator.go (AliasGenerator).

One event = one atomic step (one message queued by the forwarding goroutine, one ReadDataPoints call, one flushAck).
-/
namespace Iscp.Down
open Iscp

/-- upstream reference on the wire: full info (token) or alias -/
inductive UpRef | info (u : Nat) | alias (a : Nat)
deriving DecidableEq, Repr

structure WChunk where
  up : UpRef
  seq : Nat
  groups : List Up.WGroup
deriving DecidableEq, Repr

/-- what ReadDataPoints returns -/
structure RChunk where
  up : Nat                 -- upstream info token
  seq : Nat
  groups : Groups
deriving DecidableEq, Repr

structure Ack where
  id : Nat
  upAnn : List (Nat × Nat)          -- alias ↦ upstream info token
  idAnn : List (Nat × DataID)       -- alias ↦ data id
  results : List (Nat × Nat)        -- (upstream token, sequence number) — the token stands for the upstream's stream id
deriving DecidableEq, Repr

def cap : Nat := 1024

structure St where
  idFwd : List (Nat × DataID) := []       -- data id alias ↦ id
  idGen : Nat := 0                        -- AliasGenerator current value (data ids)
  upFwd : List (Nat × Nat) := []          -- upstream alias ↦ info token
  upGen : Nat := 0
  upAnn : List (Nat × Nat) := []          -- ack buffers
  idAnn : List (Nat × DataID) := []
  results : List (Nat × Nat) := []
  ackId : Nat := 0
  inbox : List WChunk := []
  metaBox : List (Nat × Nat) := []        -- (source node, request id)
  acks : List Ack := []                   -- every ack sent, oldest first
  metaAcks : List Nat := []               -- request ids acknowledged, in order
  closeReq : Bool := false
  out : List Nat := []                    -- order marker: 0 = ack sent, 1 = close request sent
deriving Repr

/-- AliasGenerator.Next: skips 0 (uint32 wrap-around) -/
def aliasNext (cur : Nat) : Nat := let n := (cur + 1) % 4294967296; if n = 0 then 1 else n

/-- pre-registered data ids of the open request get aliases 1..k -/
def initWith (ids : List DataID) : St :=
  ids.foldl (fun s d => let a := aliasNext s.idGen; { s with idGen := a, idFwd := s.idFwd ++ [(a, d)] }) {}

def idRev (s : St) (d : DataID) : Option Nat := (s.idFwd.find? (·.2 = d)).map (·.1)
def upRev (s : St) (u : Nat) : Option Nat := (s.upFwd.find? (·.2 = u)).map (·.1)

def arrive (s : St) (c : WChunk) : St :=
  if s.inbox.length < cap then { s with inbox := s.inbox ++ [c] } else s

/-- assignUpstreamInfoAlias: a full info not yet in the table gets a fresh alias, announced once -/
def assignUp (s : St) (r : UpRef) : St :=
  match r with
  | .alias _ => s
  | .info u =>
    if (upRev s u).isSome then s
    else let a := aliasNext s.upGen; { s with upGen := a, upFwd := s.upFwd ++ [(a, u)], upAnn := s.upAnn ++ [(a, u)] }

/-- assignDataIDAlias over the full ids of the chunk, in order -/
def assignIds (s : St) : List Up.WGroup → St
  | [] => s
  | g :: r =>
    match g.ref with
    | .alias _ => assignIds s r
    | .id d =>
      if (idRev s d).isSome then assignIds s r
      else let a := aliasNext s.idGen
           assignIds { s with idGen := a, idFwd := s.idFwd ++ [(a, d)], idAnn := s.idAnn ++ [(a, d)] } r

def resolveUp (s : St) : UpRef → Option Nat
  | .info u => some u
  | .alias a => alGet a s.upFwd

def resolveGroups (s : St) : List Up.WGroup → Option Groups
  | [] => some []
  | g :: r =>
    let d? := match g.ref with
      | .id d => some d
      | .alias a => alGet a s.idFwd
    match d?, resolveGroups s r with
    | some d, some gs => some (⟨d, g.points⟩ :: gs)
    | _, _ => none

inductive ReadOut | empty | chunk (c : RChunk) | errAlias
deriving DecidableEq, Repr

/-- ReadDataPoints on a non-empty inbox -/
def read (s : St) : St × ReadOut :=
  match s.inbox with
  | [] => (s, .empty)
  | c :: rest =>
    let s1 := assignIds (assignUp { s with inbox := rest } c.up) c.groups
    match resolveUp s1 c.up, resolveGroups s1 c.groups with
    | some u, some gs => ({ s1 with results := s1.results ++ [(u, c.seq)] }, .chunk ⟨u, c.seq, gs⟩)
    | _, _ => (s1, .errAlias)

/-- flushAck: nothing when all three buffers are empty; otherwise one ack with the next ack id carrying and clearing them -/
def flushAck (s : St) : St :=
  if s.upAnn.isEmpty ∧ s.idAnn.isEmpty ∧ s.results.isEmpty then s
  else
    let id := s.ackId + 1
    { s with ackId := id, acks := s.acks ++ [⟨id, s.upAnn, s.idAnn, s.results⟩], upAnn := [], idAnn := [], results := [], out := s.out ++ [0] }

/-- Close: the final ack flush strictly before the close request -/
def close (s : St) : St :=
  let s1 := flushAck s
  { s1 with closeReq := true, out := s1.out ++ [1] }

def arriveMeta (s : St) (node rid : Nat) : St :=
  if s.metaBox.length < cap then { s with metaBox := s.metaBox ++ [(node, rid)] } else s

def readMeta (s : St) : St × Option (Nat × Nat) :=
  match s.metaBox with
  | [] => (s, none)
  | m :: r => ({ s with metaBox := r, metaAcks := s.metaAcks ++ [m.2] }, some m)

inductive Ev
  | arrive (c : WChunk) | read | flushAck | close | arriveMeta (node rid : Nat) | readMeta | resume
deriving Repr

/-- resume keeps every table, buffer and generator -/
def step (s : St) : Ev → St
  | .arrive c => arrive s c
  | .read => (read s).1
  | .flushAck => flushAck s
  | .close => close s
  | .arriveMeta n r => arriveMeta s n r
  | .readMeta => (readMeta s).1
  | .resume => s

def run (s : St) (evs : List Ev) : St := evs.foldl step s

end Iscp.Down
