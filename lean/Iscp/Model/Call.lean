import Iscp.Model.Data
/-
M-Call — executable model of the end-to-end calls of iscp/e2e.go and the dispatch loops of iscp/conn.go
(readUpstreamCallAckLoop, readDownstreamCallLoop): two correlators (acks by call id, replies by request-call id) with
1-slot mailboxes, and the two inboxes for incoming calls and replies.  Call ids are tokens (the real ids are random uuids;
their uniqueness is the uuid library's).
-/
namespace Iscp.Call
open Iscp

inductive Phase | waitAck | waitReply
deriving DecidableEq, Repr

structure Caller where
  c : Nat                     -- caller
  id : Nat                    -- its call id
  wantsReply : Bool           -- SendCallAndWaitReplayCall
  phase : Phase
  parkedReply : Option Nat := none    -- a reply that arrived before the ack (held in the 1-slot reply mailbox)
deriving DecidableEq, Repr

structure St where
  callers : List Caller := []               -- callers blocked in the API
  ackReg : List (Nat × Nat) := []           -- call id ↦ caller (upstreamCallAckCh)
  replyReg : List (Nat × Nat) := []         -- request call id ↦ caller (replyCallChs)
  staleReply : List (Nat × Nat) := []       -- reply parked for a caller that is gone (nobody reads it)
  callInbox : List Nat := []                -- incoming calls (tokens), oldest first
  replyInbox : List (Nat × Nat) := []       -- incoming replies (token, request call id)
deriving Repr

def cap : Nat := 1024

inductive Out
  | sent
  | returnedOk (c : Nat)                    -- SendCall / SendReplyCall returned its call id
  | returnedErr (c : Nat)                   -- negative ack
  | returnedReply (c : Nat) (tok : Nat)     -- SendCallAndWaitReplayCall returned this reply
  | nobody
  | cancelled (c : Nat)
  | got (tok : Nat) | gotReply (tok req : Nat) | empty
deriving DecidableEq, Repr

/-- a caller issues a call with call id `id` (registration precedes sending) -/
def call (s : St) (c id : Nat) (wantsReply : Bool) : St :=
  { s with callers := ⟨c, id, wantsReply, .waitAck, none⟩ :: s.callers.filter (·.c ≠ c),
           ackReg := alPut id c s.ackReg,
           replyReg := if wantsReply then alPut id c s.replyReg else s.replyReg }

/-- an UpstreamCallAck for call id `id`; `ok` = result code succeeded -/
def ack (s : St) (id : Nat) (ok : Bool) : St × Out :=
  match alGet id s.ackReg with
  | none => (s, .nobody)
  | some c =>
    let s1 := { s with ackReg := alDel id s.ackReg }
    match s.callers.find? (fun k => k.c = c ∧ k.id = id ∧ k.phase = .waitAck) with
    | none => (s1, .nobody)                                  -- the caller gave up: parked in its mailbox, nobody reads it
    | some k =>
      if ¬ ok then ({ s1 with callers := s1.callers.filter (·.c ≠ c) }, .returnedErr c)
      else if ¬ k.wantsReply then ({ s1 with callers := s1.callers.filter (·.c ≠ c) }, .returnedOk c)
      else match k.parkedReply with
        | some tok => ({ s1 with callers := s1.callers.filter (·.c ≠ c) }, .returnedReply c tok)
        | none => ({ s1 with callers := s1.callers.map fun x => if x.c = c then { x with phase := .waitReply } else x }, .nobody)

/-- a DownstreamCall carrying a request call id (a reply): always queued for ReceiveReplyCall; handed to the waiter of that id, if any -/
def reply (s : St) (tok req : Nat) : St × Out :=
  let s0 := if s.replyInbox.length < cap then { s with replyInbox := s.replyInbox ++ [(tok, req)] } else s
  match alGet req s0.replyReg with
  | none => (s0, .nobody)
  | some c =>
    let s1 := { s0 with replyReg := alDel req s0.replyReg }
    match s0.callers.find? (fun k => k.c = c ∧ k.id = req) with
    | none => ({ s1 with staleReply := s1.staleReply ++ [(c, tok)] }, .nobody)
    | some k =>
      match k.phase with
      | .waitReply => ({ s1 with callers := s1.callers.filter (·.c ≠ c) }, .returnedReply c tok)
      | .waitAck => ({ s1 with callers := s1.callers.map fun x => if x.c = c then { x with parkedReply := some tok } else x }, .nobody)

def incoming (s : St) (tok : Nat) : St :=
  if s.callInbox.length < cap then { s with callInbox := s.callInbox ++ [tok] } else s

def recvCall (s : St) : St × Out :=
  match s.callInbox with
  | [] => (s, .empty)
  | t :: r => ({ s with callInbox := r }, .got t)

def recvReply (s : St) : St × Out :=
  match s.replyInbox with
  | [] => (s, .empty)
  | (t, q) :: r => ({ s with replyInbox := r }, .gotReply t q)

def cancel (s : St) (c : Nat) : St × Out :=
  match s.callers.find? (·.c = c) with
  | none => (s, .nobody)
  | some _ => ({ s with callers := s.callers.filter (·.c ≠ c) }, .cancelled c)

inductive Ev
  | call (c id : Nat) (wantsReply : Bool) | ack (id : Nat) (ok : Bool) | reply (tok req : Nat) | incoming (tok : Nat)
  | recvCall | recvReply | cancel (c : Nat) | reconnect
deriving Repr

/-- a reconnect keeps both waiter registries and both inboxes -/
def step (s : St) : Ev → St × Out
  | .call c id w => (call s c id w, .sent)
  | .ack id ok => ack s id ok
  | .reply t q => reply s t q
  | .incoming t => (incoming s t, .sent)
  | .recvCall => recvCall s
  | .recvReply => recvReply s
  | .cancel c => cancel s c
  | .reconnect => (s, .sent)

def run (s : St) : List Ev → St × List Out
  | [] => (s, [])
  | e :: r => let (s', o) := step s e; let (s'', os) := run s' r; (s'', o :: os)

end Iscp.Call
