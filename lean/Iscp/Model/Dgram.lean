import Iscp.Model.Seg
import Iscp.Model.SegSpec
/-
M-Dgram — the unreliable path of the QUIC / WebTransport transports (transport/quic/transport.go WriteUnreliable /
receiveMessage, identical in transport/webtransport): the message is compressed per message (when compression is negotiated),
cut into datagram segments (internal/segment, M-Seg), reassembled by the peer from whatever order the datagrams arrive in, and
decompressed.  Composition of M-Seg with the codec contract of M-Frame (stated here over M-Seg's byte type).
-/
namespace Iscp.Dgram
open Iscp.Seg

/-- per-message compression: `comp` / `decomp` without dictionary; the identity when compression is off -/
structure Codec where
  comp : Bytes → Bytes
  decomp : Bytes → Option Bytes

def Codec.Lawful (c : Codec) : Prop := ∀ m, c.decomp (c.comp m) = some m

def idCodec : Codec := { comp := id, decomp := some }

/-- WriteUnreliable: encode, then SendTo under the next sequence number -/
def sendU (c : Codec) (P seq : Nat) (m : Bytes) : Option (List Dg) := segments P seq (c.comp m)

/-- what the application reads for one receiver output: receiveMessage decodes a completed message; a decode error ends the
    transport (modelled as `none`) -/
inductive Read where
  | nothing
  | msg (seq : Nat) (m : Bytes)
  | decodeError (seq : Nat)
deriving Repr, DecidableEq

def readOf (c : Codec) : RecvOut → Read
  | .none => .nothing
  | .msg s bs => match c.decomp bs with
    | some m => .msg s m
    | none => .decodeError s

/-- the reader over an arrival trace (arrival time, datagram) -/
def recvU (c : Codec) (rb : RB) (tr : List (Nat × Dg)) : List Read := (runDg rb tr).map (readOf c)

end Iscp.Dgram
