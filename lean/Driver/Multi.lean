import Iscp.Model.Multi
import Driver.Util
/- topic `multi` (C19): new <initial> <m1,m2,..> · select id · write hex · asun · np · mread m hex · mburst m n · readall n · readnone · close · counters
   · rrnew ids · rrget · luget -/
namespace Driver.Multi
open Iscp Iscp.Multi Driver

structure D where
  s : Option St := none
  rrIds : List Nat := []
  rrCur : Nat := 0

def parseIds (s : String) : List Nat := if s = "_" then [] else (s.splitOn ",").map (fun x => x.toNat?.getD 0)

def showOut : Out → String
  | .ok => "ok" | .err => "err" | .routed m => "routed " ++ toString m | .crash => "crash"
  | .msg m bs => "msg " ++ toString m ++ " " ++ hexOfBytes bs | .empty => "empty"
  | .closedAll ms => "closed " ++ joinWith "," ((sortNat ms).map toString)
  | .counters t r => "counters " ++ toString t ++ " " ++ toString r
  | .id t => "id " ++ toString t

/-- sort strings (canonical multiset of read results) -/
def sortStr (l : List String) : List String :=
  l.foldl (fun acc x => (acc.filter (· ≤ x)) ++ [x] ++ (acc.filter (· > x))) []

def takeN : Nat → St → List String → St × List String
  | 0, s, acc => (s, acc)
  | n + 1, s, acc => match read s with
    | (s', .msg m bs) => takeN n s' (acc ++ [toString m ++ ":" ++ hexOfBytes bs])
    | (s', _) => (s', acc ++ ["<empty>"])

def step (d : D) (line : String) : D × String :=
  match words line with
  | ["newpoll", i, ms] => (match Iscp.Multi.new (parseIds ms) (i.toNat?.getD 0) with
    | some s => ({ d with s := some s }, "ok")
    | none => ({ d with s := none }, "err"))
  | ["new", i, ms] => (match Iscp.Multi.new (parseIds ms) (i.toNat?.getD 0) with
    | some s => ({ d with s := some s }, "ok")
    | none => ({ d with s := none }, "err"))
  | ["rrnew", ids] => ({ d with rrIds := parseIds ids, rrCur := 0 }, "ok")
  | ["rrget"] => let (id, c) := rrGet d.rrIds d.rrCur; ({ d with rrCur := c }, "id " ++ toString id)
  | ws =>
    match d.s with
    | none => (d, "nosuch")
    | some s =>
      let upd (r : St × Out) : D × String := ({ d with s := some r.1 }, showOut r.2)
      match ws with
      | ["select", i] => upd (Iscp.Multi.step s (.select (i.toNat?.getD 0)))
      | ["write", h] => (match bytesOfHex h with | some b => upd (write s b) | none => (d, "bad-op"))
      | ["burstselect", l] =>
        -- the write parked before the burst goes to the member current at that moment; then every event is applied in order
        let (s1, o) := write s [119]
        let s2 := (parseIds l).foldl select s1
        ({ d with s := some s2 }, showOut o)
      | ["closeerr", _] => (d, "ok")
      | ["asun"] => (d, showOut (deref s))
      | ["np"] => (d, showOut (deref s))
      | ["mread", m, h] => (match bytesOfHex h with
          | some b => upd (memberRead s (m.toNat?.getD 0) b, .ok) | none => (d, "bad-op"))
      | ["mburst", m, n] =>
        let mm := m.toNat?.getD 0
        let s' := (List.range (n.toNat?.getD 0)).foldl (fun s k => memberRead s mm [mm % 256, k % 256, k / 256]) s
        ({ d with s := some s' }, "ok")
      | ["readall", n] =>
        let (s', l) := takeN (n.toNat?.getD 0) s []
        ({ d with s := some s' }, "got " ++ joinWith "," (sortStr l))
      | ["readnone"] => upd (read s)
      | ["close"] => upd (close s)
      | ["counters"] => (d, showOut (counters s))
      | ["luget"] => (d, "id " ++ toString (lastUsedGet s))
      | _ => (d, "bad-op")

end Driver.Multi
