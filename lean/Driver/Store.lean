import Iscp.Model.Store
import Driver.Util
/- topic `store` (C07): ops `reset <0|1>` · `store sid seq <groups>` · `remove sid seq` · `list sid` · `clear sid` · `dump`
   groups syntax: `id:elapsed/hex;elapsed/hex|id:...`  (`_` = no groups) -/
namespace Driver.Store
open Iscp Iscp.Store Driver

def parsePoint (s : String) : Option Point :=
  match s.splitOn "/" with
  | [e, h] => do let e ← e.toInt?; let b ← bytesOfHex h; some ⟨e, b⟩
  | _ => none

def parseGroup (s : String) : Option Group :=
  match s.splitOn ":" with
  | [i, ps] => do
    let i ← i.toNat?
    let ps ← if ps = "" then some [] else (ps.splitOn ";").mapM parsePoint
    some ⟨i, ps⟩
  | _ => none

def parseGroups (s : String) : Option Groups :=
  if s = "_" then some [] else (s.splitOn "|").mapM parseGroup

def showPoint (p : Point) : String := toString p.elapsed ++ "/" ++ hexOfBytes p.payload
def showGroup (g : Group) : String := toString g.id ++ ":" ++ joinWith ";" (g.points.map showPoint)
def showGroups (gs : Groups) : String := if gs.isEmpty then "_" else joinWith "|" (gs.map showGroup)

def sortBySeq (m : List (Nat × Groups)) : List (Nat × Groups) :=
  m.foldl (fun acc x => (acc.filter (·.1 ≤ x.1)) ++ [x] ++ (acc.filter (·.1 > x.1))) []

def showMap (m : List (Nat × Groups)) : String :=
  if m.isEmpty then "{}" else "{" ++ joinWith "," ((sortBySeq m).map fun e => toString e.1 ++ "=" ++ showGroups e.2) ++ "}"

structure S where
  noPayload : Bool := false
  st : St := []

def showOut : Out → String
  | .ok => "ok"
  | .removed v => "removed " ++ showGroups v
  | .listed m => "listed " ++ showMap m
  | .notFoundStream => "err not-found-stream"
  | .notFoundSeq => "err not-found-seq"

def step (s : S) (line : String) : S × String :=
  let exec (op : Op) : S × String :=
    let (st', o) := Iscp.Store.step s.noPayload s.st op
    ({ s with st := st' }, showOut o)
  match words line with
  | ["reset", b] => ({ noPayload := b = "1", st := [] }, "ok")
  | ["store", a, b, g] => match a.toNat?, b.toNat?, parseGroups g with
    | some sid, some seq, some v => exec (.store sid seq v)
    | _, _, _ => (s, "bad-op")
  | ["remove", a, b] => match a.toNat?, b.toNat? with
    | some sid, some seq => exec (.remove sid seq)
    | _, _ => (s, "bad-op")
  | ["list", a] => match a.toNat? with
    | some sid => exec (.list sid)
    | none => (s, "bad-op")
  | ["clear", a] => match a.toNat? with
    | some sid => exec (.clear sid)
    | none => (s, "bad-op")
  | _ => (s, "bad-op")

end Driver.Store
