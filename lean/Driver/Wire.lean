import Iscp.Model.Corr
import Driver.Util
/- topic `wire` (C06, C07 routing, C12 typed read path)
   req <caller> <kind> [sid] [alias] · resp <id> <rkind> [rsid] [ralias] [refused] · cancel <caller>
   subdps a · subdpsu a · subackc a · submeta a n · ack a tok · chunk a tok · chunku a tok · ackc a tok · meta a n tok
   drainack a · draindps a · draindpsu a · drainackc a · drainmeta a n -/
namespace Driver.Wire
open Iscp Iscp.Corr Driver

def parseKind : String → Option Kind
  | "upopen" => some .upOpen | "upresume" => some .upResume | "upclose" => some .upClose
  | "downopen" => some .downOpen | "downresume" => some .downResume | "downclose" => some .downClose
  | "metadata" => some .metadata | "ping" => some .ping
  | _ => none

def parseRKind : String → Option RKind
  | "upopenr" => some .upOpenR | "upresumer" => some .upResumeR | "upcloser" => some .upCloseR
  | "downopenr" => some .downOpenR | "downresumer" => some .downResumeR | "downcloser" => some .downCloseR
  | "metaack" => some .metaAck | "pong" => some .pong | "other" => some .other
  | _ => none

def showRKind : RKind → String
  | .upOpenR => "upopenr" | .upResumeR => "upresumer" | .upCloseR => "upcloser"
  | .downOpenR => "downopenr" | .downResumeR => "downresumer" | .downCloseR => "downcloser"
  | .metaAck => "metaack" | .pong => "pong" | .other => "other"

def showOut : Out → String
  | .issued id => "issued " ++ toString id
  | .delivered c rk => "delivered " ++ toString c ++ " " ++ showRKind rk
  | .mismatch c rk => "mismatch " ++ toString c ++ " " ++ showRKind rk
  | .ignored => "nobody"
  | .stale => "nobody"
  | .cancelled c => "cancelled " ++ toString c
  | .noop => "noop"

def showROut : ROut → String
  | .ok => "ok" | .already => "err already-subscribed" | .dropped => "sent" | .queued => "sent" | .unknown => "sent"
  | .items l => "items " ++ joinWith "," (l.map toString) | .nosub => "nosub"

def nat (s : String) : Nat := s.toNat?.getD 0

structure DSt where
  w : Wire := {}
  dead : Bool := false

/-- the harness's barrier: the sentinel caller 99 (if armed) is answered right behind the message under test -/
def barrier (w : Wire) : Wire :=
  match w.c.waiting.find? (·.caller = 99) with
  | some s => (wresp w s.id .metaAck 0 0).1
  | none => w

def stepW (w : Wire) (line : String) : Wire × String :=
  let r (e : REv) : Wire × String := let (t', o) := rstep w.t e; ({ w with t := t' }, showROut o)
  match words line with
  | ["sync"] => let (w', o) := wreq w 99 .metadata {}; (w', showOut o)
  | "req" :: c :: k :: rest =>
    (match parseKind k with
    | some k =>
      let a : ReqArgs := match k, rest with
        | .upResume, [sid] => { sid := nat sid }
        | .upClose, [sid] => { sid := nat sid }
        | .downOpen, [al] => { alias := nat al }
        | .downResume, [sid, al] => { sid := nat sid, alias := nat al }
        | .downClose, [sid] => { sid := nat sid }
        | _, _ => {}
      let (w', o) := wreq w (nat c) k a
      (w', showOut o)
    | none => (w, "bad-op"))
  | "resp" :: id :: rk :: rest =>
    (match parseRKind rk with
    | some rk =>
      let accepted := rest.getLast? != some "refused"
      let rest := if accepted then rest else rest.dropLast
      let (rsid, ral) := match rest with
        | [a, b] => (nat a, nat b)
        | [a] => (0, nat a)
        | _ => (0, 0)
      let isSentinel := (w.c.waiting.any fun x => x.caller = 99 ∧ x.id = nat id ∧ alGet (nat id) w.c.pending = some 99)
      let (w', o) := wresp w (nat id) rk rsid ral accepted
      (if isSentinel then w' else barrier w', showOut o)
    | none => (w, "bad-op"))
  | ["cancel", c] => let (w', o) := wcancel w (nat c); (w', showOut o)
  | ["subdps", a] => r (.subDps (nat a))
  | ["subdpsu", a] => r (.subDpsU (nat a))
  | ["subackc", a] => r (.subAckc (nat a))
  | ["submeta", a, n] => r (.subMeta (nat a) (nat n))
  | ["ack", a, t] => r (.ack (nat a) (nat t))
  | ["chunk", a, t] => r (.chunk (nat a) (nat t))
  | ["chunku", a, t] => r (.chunkU (nat a) (nat t))
  | ["ackc", a, t] => r (.ackComplete (nat a) (nat t))
  | ["meta", a, n, t] => r (.metadata (nat a) (nat n) (nat t))
  | ["drainack", a] => r (.drainAck (nat a))
  | ["draindps", a] => r (.drainDps (nat a))
  | ["draindpsu", a] => r (.drainDpsU (nat a))
  | ["drainackc", a] => r (.drainAckc (nat a))
  | ["drainmeta", a, n] => r (.drainMeta (nat a) (nat n))
  | _ => (w, "bad-op")

/-- `pingids n`: a fresh connection issues n keepalive pings (each answered) and one metadata request after the second -/
def pingIds (n : Nat) : String :=
  let rec go (k : Nat) (w : Wire) (ids : List Nat) : List Nat :=
    match k with
    | 0 => ids
    | k + 1 =>
      let (w1, o) := wreq w 0 .ping {}
      match o with
      | .issued id =>
        let w2 := (wresp w1 id .pong 0 0).1
        let (w3, ids') :=
          if n - k = 2 then
            match wreq w2 1 .metadata {} with
            | (w3, .issued m) => ((wresp w3 m .metaAck 0 0).1, ids ++ [id, m])
            | (w3, _) => (w3, ids ++ [id])
          else (w2, ids ++ [id])
        go k w3 ids'
      | _ => ids
  let ids := go n {} []
  if ids.Nodup ∧ ids.all (· % 2 = 0) ∧ n ≤ ids.length then "pingids ok" else "pingids bad " ++ toString ids

/-- `burst n`: n callers issue a request each on a fresh connection; all are answered, newest first -/
def burstN (n : Nat) : String :=
  let rec issue (k : Nat) (w : Wire) (ids : List (Nat × Nat)) : Wire × List (Nat × Nat) :=
    match k with
    | 0 => (w, ids)
    | k + 1 =>
      let caller := n - k
      match wreq w caller .metadata {} with
      | (w', .issued id) => issue k w' ((caller, id) :: ids)     -- newest first
      | (w', _) => issue k w' ids
  let (w1, ids) := issue n {} []
  let okN := (ids.foldl (fun (acc : Wire × Nat) ci =>
      match wresp acc.1 ci.2 .metaAck 0 0 with
      | (w', .delivered c _) => (w', if c = ci.1 then acc.2 + 1 else acc.2)
      | (w', _) => (w', acc.2)) (w1, 0)).2
  if okN = n then s!"burst ok {okN}" else s!"burst {okN} of {n}"

def step (d : DSt) (line : String) : DSt × String :=
  match words line with
  | ["reset"] => ({}, "ok")
  | ["burst", n] => (d, burstN (nat n))
  | ["pingids", n] => (d, pingIds (nat n))
  | _ =>
    if d.dead then (d, "dead") else
    let (w', o) := stepW d.w line
    -- a wrong-typed answer to the keepalive ping (caller 0) ends the connection
    ({ w := w', dead := o.startsWith "mismatch 0 " }, o)

end Driver.Wire
