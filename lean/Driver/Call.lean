import Iscp.Model.Call
import Driver.Util
/- topic `call` (C16): reset · call c k [wait] · sync k · ack k ok|no · ackunknown · reply tok k · replyunknown tok · incomingn t1,t2 · cancel c · kill · rt n · storm n · stormcut n -/
namespace Driver.Call
open Iscp Iscp.Call Driver

structure D where
  s : St := {}
  sentinel : Option Nat := none     -- call id of the armed sentinel call (caller 99)

def showOut : Out → String
  | .sent => "sent" | .returnedOk c => "ok " ++ toString c | .returnedErr c => "err " ++ toString c
  | .returnedReply c t => "reply " ++ toString c ++ " " ++ toString t | .nobody => "nobody" | .cancelled c => "cancelled " ++ toString c
  | .got t => "got " ++ toString t | .gotReply t q => "gotreply " ++ toString t ++ "/" ++ toString q | .empty => "empty"

/-- the harness's barrier through readUpstreamCallAckLoop: acknowledge the sentinel call behind the message under test -/
def barrier (d : D) : D :=
  match d.sentinel with
  | some k => { d with s := (ack d.s k true).1, sentinel := none }
  | none => d

def nat (s : String) : Nat := s.toNat?.getD 0

/-- n callers at once (stormcut: an outage with all n calls in flight; every call is re-sent and acknowledged on the new
    connection): the number of callers that return the ack of their own call -/
def stormOk (s : St) (n : Nat) : Nat :=
  let ks := (List.range n).map (· + 200000)
  let s1 := ks.foldl (fun s k => call s (k - 199000) k false) s
  (ks.foldl (fun (acc : St × Nat) k => match ack acc.1 k true with
    | (s', .returnedOk c) => (s', if c = k - 199000 then acc.2 + 1 else acc.2)
    | (s', _) => (s', acc.2)) (s1, 0)).2

def step (d : D) (line : String) : D × String :=
  match words line with
  | ["reset"] => ({}, "ok")
  | ["call", c, k] => ({ d with s := call d.s (nat c) (nat k) false }, "sent")
  | ["call", c, k, "wait"] => ({ d with s := call d.s (nat c) (nat k) true }, "sent")
  | ["sync", k] => ({ d with s := call d.s 99 (nat k) false, sentinel := some (nat k) }, "sent")
  | ["ack", k, r] =>
    let (s', o) := ack d.s (nat k) (r = "ok")
    (barrier { d with s := s' }, showOut o)
  | ["ackunknown"] => (barrier d, "nobody")
  | ["reply", t, k] =>
    let (s1, o) := reply d.s (nat t) (nat k)
    let (s2, p) := recvReply s1
    ({ d with s := s2 }, showOut o ++ " popped=" ++ showOut p)
  | ["replyunknown", t] =>
    let (s1, o) := reply d.s (nat t) 999999
    let (s2, p) := recvReply s1
    ({ d with s := s2 }, showOut o ++ " popped=" ++ (match p with | .gotReply t _ => "gotreply " ++ toString t ++ "/unknown" | x => showOut x))
  | ["incomingn", l] =>
    let toks := (l.splitOn ",").map nat
    let s1 := toks.foldl incoming d.s
    let rec pop : Nat → St → List String → St × List String
      | 0, s, acc => (s, acc)
      | n + 1, s, acc => match recvCall s with
        | (s', .got t) => pop n s' (acc ++ [toString t])
        | (s', _) => (s', acc ++ ["empty"])
    let (s2, got) := pop toks.length s1 []
    ({ d with s := s2 }, "got " ++ joinWith "," got)
  | ["rt", n] =>
    -- n sequential call-and-wait round trips by caller 7, nobody calls ReceiveReplyCall meanwhile; afterwards the shared reply
    -- queue is drained and its length reported
    let rec go : Nat → Nat → St → Nat → St × Nat
      | 0, _, s, ok => (s, ok)
      | m + 1, k, s, ok =>
        let s1 := call s 7 k true
        let (s2, _) := ack s1 k true
        match reply s2 (500000 + k) k with
        | (s3, .returnedReply _ _) => go m (k + 1) s3 (ok + 1)
        | (s3, _) => go m (k + 1) s3 ok
    let (s', ok) := go (nat n) 100000 d.s 0
    ({ d with s := { s' with replyInbox := [] } }, s!"ok {ok} inbox={s'.replyInbox.length}")
  | ["storm", n] => (d, "storm ok " ++ toString (stormOk d.s (nat n)))
  | ["stormcut", n] => (d, "stormcut ok " ++ toString (stormOk d.s (nat n)))
  | ["cancel", c] => let (s', o) := cancel d.s (nat c); ({ d with s := s' }, showOut o)
  | ["kill"] => (d, "reconnected")
  | _ => (d, "bad-op")

end Driver.Call
