import Iscp.Model.Rel
import Driver.Store
/- topic `up` (C01, C20): open <policy> <qos> <preids> · write <id> <points|-> · tick · flush · ack <seq:code,..|_> <alias=id,..|_> · close · state -/
namespace Driver.Up
open Iscp Iscp.Up Driver

structure D where
  s : St := {}
  nSent : Nat := 0
  nSendHook : Nat := 0
  nAckHook : Nat := 0
  opened : Bool := false
  reliable : Bool := true

def parsePolicy (s : String) : Policy :=
  if s = "none" then .none else if s = "interval" then .interval else if s = "immediate" then .immediate
  else if s.startsWith "size:" then .size ((s.drop 5).toNat?.getD 0)
  else if s.startsWith "ios:" then .intervalOrSize ((s.drop 4).toNat?.getD 0)
  else .none

def sortStr (l : List String) : List String :=
  l.foldl (fun acc x => (acc.filter (· ≤ x)) ++ [x] ++ (acc.filter (· > x))) []

def showPoints (ps : List Point) : String := joinWith ";" (ps.map Driver.Store.showPoint)

def showWGroup (g : WGroup) : String :=
  (match g.ref with | .id d => "I" ++ toString d | .alias a => "A" ++ toString a) ++ ":" ++ showPoints g.points

def showChunk (c : Chunk) : String :=
  toString c.seq ++ "{" ++ joinWith "|" (sortStr (c.groups.map showWGroup)) ++ "}{" ++ joinWith "," ((sortNat c.dataIDs).map toString) ++ "}"

def sortGroups (gs : Groups) : Groups :=
  gs.foldl (fun acc x => (acc.filter (·.id ≤ x.id)) ++ [x] ++ (acc.filter (·.id > x.id))) []

def showGroups (gs : Groups) : String := Driver.Store.showGroups (sortGroups gs)

def showAliases (rev : List (DataID × Nat)) : String :=
  let sorted := rev.foldl (fun acc x => (acc.filter (·.2 ≤ x.2)) ++ [x] ++ (acc.filter (·.2 > x.2))) []
  joinWith "," (sorted.map fun e => toString e.2 ++ "=" ++ toString e.1)

def report (d : D) (s : St) : D × String :=
  let chunks := (s.sent.drop d.nSent).map showChunk
  let sh := sortStr ((s.sendHook.drop d.nSendHook).map fun e => toString e.1 ++ "{" ++ showGroups e.2 ++ "}")
  let ah := (s.ackHook.drop d.nAckHook).map fun e => toString e.1 ++ ":" ++ toString e.2
  let cl := match s.closeReq with | some (t, f) => " close=" ++ toString t ++ "/" ++ toString f | none => ""
  ({ d with s := s, nSent := s.sent.length, nSendHook := s.sendHook.length, nAckHook := s.ackHook.length },
   "chunks=[" ++ joinWith ";" chunks ++ "] state=" ++ toString s.total ++ "/" ++ toString s.seq ++ "/" ++ showGroups (toGroups s.buf) ++ "/" ++
   showAliases s.rev ++ " sendhook=[" ++ joinWith ";" sh ++ "] ackhook=[" ++ joinWith "," ah ++ "]" ++ cl)

def parsePoints (s : String) : Option (List Point) :=
  if s = "-" then some [] else (s.splitOn ";").mapM Driver.Store.parsePoint

def parsePairs (s : String) (sep : String) : List (Nat × Nat) :=
  if s = "_" then [] else (s.splitOn ",").filterMap fun p => match p.splitOn sep with
    | [a, b] => (match a.toNat?, b.toNat? with | some a, some b => some (a, b) | _, _ => none)
    | _ => none

def step (d : D) (line : String) : D × String :=
  match words line with
  | ["concurrent", _, _] => ({}, "ok")
  | "open" :: pol :: qos :: pre :: _ =>
    let ids := if pre = "_" then [] else (pre.splitOn ",").filterMap (·.toNat?)
    let rev := ids.zipIdx.map fun (e : Nat × Nat) => (e.1, e.2 + 1)
    let s : St := { policy := parsePolicy pol, rev := rev }
    ({ s := s, opened := true, reliable := qos = "r" }, "ok aliases=" ++ showAliases rev)
  | ws =>
    if !d.opened then (d, "nostream") else
    match ws with
    | ["write", i, ps] => (match i.toNat?, parsePoints ps with
        | some i, some ps => report d (accept d.s i ps)
        | _, _ => (d, "bad-op"))
    | ["tick"] => report d (tick d.s)
    | ["flush"] => report d (cut d.s)
    | ["ack", rs, als] => report d (ack d.s (parsePairs rs ":") (parsePairs als "="))
    | ["close"] =>
      -- final flush; the broker acknowledges the final chunk (if one was cut); then the close request
      let s1 := closeFlush d.s
      let s2 := if s1.seq > d.s.seq then ack s1 [(s1.seq, 1)] [] else s1
      report d (closeRequest s2)
    | [k] =>
      if k = "kill" ∨ k = "killafter" ∨ k = "killdrop" then
        -- killafter: the flushed chunk reaches the broker before the link dies; kill / killdrop: whatever is cut now never arrives
        let s0 := if k = "kill" then d.s else cut d.s
        let (d1, rep1) := if k = "killafter" then report d s0 else (d, "")
        let r0 : Iscp.Rel.St := { up := s0, reliable := d.reliable }
        let r1a := Iscp.Rel.resume (Iscp.Rel.disconnect r0)
        -- the broker acknowledges every retransmitted chunk as it arrives
        let acks := (r1a.resent.map fun c => (c.seq, 1))
        let r1 : Iscp.Rel.St := { r1a with up := ack r1a.up acks [] }
        -- chunks cut but lost with the link are not "new chunks at the broker": skip them in the chunk report, keep their hooks
        let dskip := { d1 with nSent := r1.up.sent.length }
        let (d2, rep2) := report dskip r1.up
        let rep := if k = "killafter" then
            -- merge: chunks from rep1, the rest (state, hooks) from the final state
            let c1 := (rep1.splitOn " state=").headD ""
            let rest := (rep2.splitOn " state=").drop 1
            let (_, repHooks) := report { d with nSent := r1.up.sent.length } r1.up
            let _ := rest
            c1 ++ " state=" ++ joinWith " state=" ((repHooks.splitOn " state=").drop 1)
          else rep2
        (d2, rep ++ " resumed=same resent=[" ++ joinWith ";" (r1.resent.map showChunk) ++ "]")
      else if k = "state" then report d d.s else (d, "bad-op")
    | _ => (d, "bad-op")

end Driver.Up
