import Iscp.Model.Neg
import Driver.Util
/- topic `neg` (C17): kv / url / bin / marshal / marshalbin / validate / cfg / dial -/
namespace Driver.Neg
open Iscp.Neg Driver
open Iscp.Seg (Bytes)

def showOptInt : Option Int → String
  | none => "nil"
  | some i => toString i

def showParams (p : Params) : String :=
  joinWith " " [hexOfBytes p.enc, hexOfBytes p.comp, showOptInt p.clevel, showOptInt p.cwinbits, hexOfBytes p.tid,
    (if p.reconnect then "1" else "0"), hexOfBytes p.tgid, toString p.tgcount, toString p.tgidx]

def parseOptInt (s : String) : Option (Option Int) :=
  if s = "nil" then some none else (s.toInt?).map some

def parseParams : List String → Option Params
  | [e, c, l, w, t, r, g, gc, gi] => do
    let e ← bytesOfHex e; let c ← bytesOfHex c; let l ← parseOptInt l; let w ← parseOptInt w
    let t ← bytesOfHex t; let g ← bytesOfHex g; let gc ← gc.toInt?; let gi ← gi.toInt?
    some ⟨e, c, l, w, t, r = "1", g, gc, gi⟩
  | _ => none

def parsePair (s : String) : Option (Bytes × Bytes) :=
  match s.splitOn "=" with
  | [k, v] => do let k ← bytesOfHex k; let v ← bytesOfHex v; some (k, v)
  | _ => none

def parseKVs (s : String) : Option (List (Bytes × Bytes)) :=
  if s = "_" then some [] else (s.splitOn ",").mapM parsePair

def parseUrlPair (s : String) : Option (Bytes × List Bytes) :=
  match s.splitOn "=" with
  | [k, vs] => do
    let k ← bytesOfHex k
    let vs ← if vs = "" then some [] else (vs.splitOn "|").mapM bytesOfHex
    some (k, vs)
  | _ => none

def parseUrl (s : String) : Option (List (Bytes × List Bytes)) :=
  if s = "_" then some [] else (s.splitOn ",").mapM parseUrlPair

def showRes : Option Params → String
  | some p => "ok " ++ showParams p
  | none => "err"

def showKVs (l : List (Bytes × Bytes)) : String :=
  if l.isEmpty then "_" else joinWith "," ((sortKV l).map fun e => hexOfBytes e.1 ++ "=" ++ hexOfBytes e.2)

def b01 (b : Bool) : String := if b then "1" else "0"

def step (st : Unit) (line : String) : Unit × String :=
  (st, match words line with
  | ["kv", s] => (match parseKVs s with | some l => showRes (unmarshalKV Params.zero l) | none => "bad-op")
  | ["url", s] => (match parseUrl s with | some l => showRes (unmarshalURL Params.zero l) | none => "bad-op")
  | ["bin", h] => (match bytesOfHex h with | some b => showRes (unmarshalBin Params.zero b) | none => "bad-op")
  | "marshal" :: ps => (match parseParams ps with | some p => "kv " ++ showKVs (marshalKV p) | none => "bad-op")
  | "marshalbin" :: ps => (match parseParams ps with
      | some p => "bin " ++ hexOfBytes (marshalBinKV (sortKV (marshalKV p)))
      | none => "bad-op")
  | "validate" :: ps => (match parseParams ps with | some p => showRes (validate p) | none => "bad-op")
  | "cfg" :: rest =>
    (match parseParams (rest.take 9), rest.drop 9 with
    | some p, [e, l, d, w] => (match l.toInt?, w.toInt? with
      | some l, some w =>
        let c := compressConfig p ⟨e = "1", l, d = "1", w⟩
        "cfg " ++ joinWith " " [b01 c.enable, toString c.level, b01 c.disableTakeover, toString c.windowBits]
      | _, _ => "bad-op")
    | _, _ => "bad-op")
  | ["dial", e, l, d, w, enc, tid, r, g, gc, gi] =>
    (match l.toInt?, w.toInt?, bytesOfHex enc, bytesOfHex tid, bytesOfHex g, gc.toInt?, gi.toInt? with
    | some l, some w, some enc, some tid, some g, some gc, some gi =>
      "ok " ++ showParams (DialConfig.params ⟨⟨e = "1", l, d = "1", w⟩, enc, tid, r = "1", g, gc, gi⟩)
    | _, _, _, _, _, _, _ => "bad-op")
  | _ => "bad-op")

end Driver.Neg
