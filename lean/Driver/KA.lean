import Iscp.Model.KA
import Driver.Util
/- topic `ka` (C15): run <I> <T> <d1,d2,..|_> (delay in ms or `x` = never)  ·  announce <ms> <defaultms>  ·  echo  ·  burst <n>  ·  pingburst <n> -/
namespace Driver.KA
open Iscp.KA Driver

def step (u : Unit) (line : String) : Unit × String :=
  (u, match words line with
  | ["run", i, t, ds] =>
    let delays : List (Option Nat) := if ds = "_" then [] else (ds.splitOn ",").map fun s => if s = "x" then none else s.toNat?
    (match run ⟨i.toNat?.getD 1, t.toNat?.getD 1⟩ delays with
    | .alive n _ => "alive pings=" ++ toString n
    | .closed _ n _ => "closed pings=" ++ toString n)
  -- what Close of the transport returns is no event of the keepalive model
  | ["runce", i, t, ds] =>
    let delays : List (Option Nat) := (ds.splitOn ",").map fun s => if s = "x" then none else s.toNat?
    (match run ⟨i.toNat?.getD 1, t.toNat?.getD 1⟩ delays with
    | .alive n _ => "alive pings=" ++ toString n
    | .closed _ n _ => "closed pings=" ++ toString n)
  | ["apptraffic", _] =>
    (match run ⟨100, 160⟩ (List.replicate 8 (some 0)) with
    | .alive _ _ => "alive"
    | .closed _ _ _ => "closed")
  | ["announce", a, b] => "announced " ++ toString (announced (a.toNat?.getD 0) (b.toNat?.getD 0))
  | ["echo"] => if [1, 3, 77, 4294967295].all (fun i => pongFor i == i) then "echo ok" else "echo missing"
  -- application traffic is no event of the keepalive model: a peer that answers every ping at once is never dropped
  | ["wireburst", _] =>
    (match run ⟨100, 160⟩ (List.replicate 8 (some 0)) with
    | .alive _ _ => "alive"
    | .closed _ _ _ => "closed")
  | ["burst", _] =>
    (match run ⟨100, 160⟩ (List.replicate 8 (some 0)) with
    | .alive _ _ => "alive"
    | .closed _ _ _ => "closed")
  -- every ping is answered with its id
  | ["pingburst", n] =>
    let ids := (List.range (n.toNat?.getD 0)).map (fun k => 5001 + 2 * k)
    "echo " ++ toString (ids.filter (fun i => pongFor i == i)).length
  | _ => "bad-op")

end Driver.KA
