import Iscp.Model.ConnM
import Driver.Util
/- topic `conn` (C05 / C10): reset · open up|down · req r · reqcut r · kill · dial ok|fail · resume sid ok|refused · closestream sid · close
   every op prints the observable state -/
namespace Driver.ConnM
open Iscp.ConnM Driver

def showStatus : Status → String
  | .connected => "c" | .reconnecting => "r" | .closed => "x"
def showSt : SState → String
  | .opened => "open" | .resuming => "resuming" | .closedOk => "closed" | .closedErr => "closederr" | .closedConn => "closedconn"
def showDir : Dir → String
  | .up => "u" | .down => "d"

def summary (s : St) : String :=
  let streams := s.streams.map fun x => s!"{x.sid}:{showDir x.dir}:{showSt x.st}:{x.resumedEv}:{x.closedEv}"
  -- requests complete and resumes are answered concurrently: both sides print these lists sorted
  let sortPairs (l : List (Nat × Nat)) : List String :=
    (sortNat (l.map fun p => p.1 * 1000000 + p.2)).map fun k => s!"{k / 1000000}/{k % 1000000}"
  let sent := sortPairs s.sent
  let res := sortPairs (s.resumes.map fun p => (p.1, p.2.1))
  s!"st={showStatus s.status} inc={s.inc} dials={s.dials} tokens={s.tokens} disc={s.disc} reconn={s.reconn} " ++
  s!"streams=[{joinWith " " streams}] sent=[{joinWith " " sent}] pending=[{joinWith " " ((sortNat s.pending).map toString)}] " ++
  s!"popen={s.pendingOpens.length} failed=[{joinWith " " ((sortNat s.failed).map toString)}] resumes=[{joinWith " " res}] disconnects={s.disconnectSent}"

def nat (s : String) : Nat := s.toNat?.getD 0

def parse : List String → Option Ev
  | ["open", "up"] => some (.openStream .up)
  | ["open", "down"] => some (.openStream .down)
  | ["req", r] => some (.request (nat r))
  | ["reqcut", r] => some (.requestCut (nat r))
  | ["kill"] => some .kill
  | ["dial", "ok"] => some (.dial true)
  | ["dial", "fail"] => some (.dial false)
  | ["dial", "cut"] => some (.dial false)   -- the link drops during the connect handshake: a failed attempt like any other
  | ["backoff"] => some .backoff
  | ["resume", sid, "ok"] => some (.resume (nat sid) .ok)
  | ["resume", sid, "refused"] => some (.resume (nat sid) .refused)
  | ["resume", sid, "conflict"] => some (.resume (nat sid) .ok)   -- a conflict is no answer: the stream asks again and is accepted
  | ["closestream", sid] => some (.closeStream (nat sid))
  | ["close"] => some .close
  | ["close", _] => some .close
  | _ => none

def step (s : St) (line : String) : St × String :=
  match words line with
  | ["reset"] => ({}, "ok")
  | "probe" :: _ => (s, "-")
  | ["opencut", "up"] => let s' := Iscp.ConnM.step (Iscp.ConnM.step s .kill) (.openStream .up); (s', summary s')
  | ["opencut", "down"] => let s' := Iscp.ConnM.step (Iscp.ConnM.step s .kill) (.openStream .down); (s', summary s')
  | ["reqshort", _] => (s, summary s)
  | ["reqcutfast", r] =>
    let s' := Iscp.ConnM.step (Iscp.ConnM.step s (.requestCut (nat r))) (.dial true); (s', summary s')
  | ["opencutfast", "up"] =>
    let s' := Iscp.ConnM.step (Iscp.ConnM.step (Iscp.ConnM.step s .kill) (.openStream .up)) (.dial true); (s', summary s')
  | ["opencutfast", "down"] =>
    let s' := Iscp.ConnM.step (Iscp.ConnM.step (Iscp.ConnM.step s .kill) (.openStream .down)) (.dial true); (s', summary s')
  | ["killfast"] => let s' := Iscp.ConnM.step (Iscp.ConnM.step s .kill) (.dial true); (s', summary s')
  | ["failclose"] => let s' := Iscp.ConnM.step (Iscp.ConnM.step s (.dial false)) .close; (s', summary s')
  | w =>
    match parse w with
    | some e => let s' := Iscp.ConnM.step s e; (s', summary s')
    | none => (s, "bad-op")

end Driver.ConnM
