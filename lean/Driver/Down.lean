import Iscp.Model.Down
import Driver.Up
/- topic `down` (C03, C04): open <qos> <preids|_> · chunk <U tok|A alias> <seq> <groups> · readn <k> · meta <node> <rid> · readmeta · kill · close -/
namespace Driver.Down
open Iscp Iscp.Down Driver

structure D where
  s : St := {}
  nAcks : Nat := 0
  nMetaAcks : Nat := 0

def parseRef (s : String) : Option Up.IdOrAlias :=
  if s.startsWith "I" then (s.drop 1).toNat?.map .id
  else if s.startsWith "A" then (s.drop 1).toNat?.map .alias else none

def parseWGroup (s : String) : Option Up.WGroup :=
  match s.splitOn ":" with
  | [r, ps] => do
    let r ← parseRef r
    let ps ← if ps = "" then some [] else (ps.splitOn ";").mapM Driver.Store.parsePoint
    some ⟨r, ps⟩
  | _ => none

def parseWGroups (s : String) : Option (List Up.WGroup) :=
  if s = "_" then some [] else (s.splitOn "|").mapM parseWGroup

def parseUp (s : String) : Option UpRef :=
  if s.startsWith "U" then (s.drop 1).toNat?.map .info
  else if s.startsWith "A" then (s.drop 1).toNat?.map .alias else none

def showPairs {α} (f : α → String) (l : List (Nat × α)) : String :=
  let sorted := l.foldl (fun acc x => (acc.filter (·.1 ≤ x.1)) ++ [x] ++ (acc.filter (·.1 > x.1))) []
  joinWith "," (sorted.map fun e => toString e.1 ++ "=" ++ f e.2)

def showAcks (prev : Nat) (acks : List Ack) : String :=
  match acks with
  | [] => "[]"
  | a :: _ =>
    let contiguous := acks.map (·.id) == List.range' (prev + 1) acks.length
    "[ids=" ++ (if contiguous then "ok" else toString a.id ++ "!gap-after-" ++ toString prev) ++
    " up=[" ++ showPairs toString (acks.flatMap (·.upAnn)) ++ "] id=[" ++ showPairs toString (acks.flatMap (·.idAnn)) ++
    "] res=[" ++ joinWith "," ((acks.flatMap (·.results)).map fun r => toString r.1 ++ ":" ++ toString r.2) ++ "]]"

def showRead : ReadOut → String
  | .empty => "empty"
  | .errAlias => "err"
  | .chunk c => toString c.seq ++ "/" ++ toString c.up ++ "/" ++ Driver.Store.showGroups c.groups

def readN : Nat → St → List String → St × List String
  | 0, s, acc => (s, acc)
  | n + 1, s, acc => let (s', o) := read s; readN n s' (acc ++ [showRead o])

def newAcks (d : D) (s : St) : D × String :=
  ({ d with s := s, nAcks := s.acks.length }, showAcks (((s.acks.take d.nAcks).getLast?.map (·.id)).getD 0) (s.acks.drop d.nAcks))

def step (d : D) (line : String) : D × String :=
  match words line with
  | ["open", _, pre] =>
    let ids := if pre = "_" then [] else (pre.splitOn ",").filterMap (·.toNat?)
    ({ s := initWith ids }, "ok")
  | ["chunk", u, q, gs] => (match parseUp u, q.toNat?, parseWGroups gs with
      | some u, some q, some gs => ({ d with s := arrive d.s ⟨u, q, gs⟩ }, "ok")
      | _, _, _ => (d, "bad-op"))
  | ["readn", k] =>
    let (s1, outs) := readN (k.toNat?.getD 0) d.s []
    let (d', a) := newAcks d (flushAck s1)
    (d', "reads=[" ++ joinWith ";" outs ++ "] acks=" ++ a)
  -- a polling consumer (reads with an expired context first): the same chunks, each once, in order
  | ["readnp", k] =>
    let (s1, outs) := readN (k.toNat?.getD 0) d.s []
    let (d', a) := newAcks d (flushAck s1)
    (d', "reads=[" ++ joinWith ";" outs ++ "] acks=" ++ a)
  | ["meta", n, r] => ({ d with s := arriveMeta d.s (n.toNat?.getD 0) (r.toNat?.getD 0) }, "ok")
  | ["readmeta"] => (match readMeta d.s with
      | (s', some (n, r)) => ({ d with s := s' }, "meta " ++ toString n ++ " " ++ toString r ++ " ack=" ++ toString r)
      | (s', none) => ({ d with s := s' }, "empty"))
  | ["kill"] => (d, "resumed alias=same")
  | ["killconflict"] => (d, "resumed alias=same")
  | ["close"] =>
    let s1 := close d.s
    let (d', a) := newAcks d s1
    let order := if s1.out.getLast? = some 1 ∧ (s1.acks.length = d.nAcks ∨ (s1.out.dropLast).getLast? = some 0) then "ack-before-close" else "bad-order"
    (d', "final=" ++ a ++ " close=ok order=" ++ order)
  | "scenario" :: _ => (d, "-")
  | _ => (d, "bad-op")

end Driver.Down
