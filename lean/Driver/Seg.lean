import Iscp.Model.Seg
import Driver.Util
/- topic `seg`: ops `P n` · `expiry n` · `send seq hex` · `recv now hex` · `expire now` -/
namespace Driver.Seg
open Iscp.Seg Driver

structure St where
  P : Nat := 1188
  rb : RB := ⟨[], 10000⟩

def step (st : St) (line : String) : St × String :=
  match words line with
  | ["reset"] => ({}, "ok")
  | ["P", n] => match n.toNat? with
    | some k => ({ st with P := k }, "ok")
    | none => (st, "bad-op")
  | ["expiry", n] => match n.toNat? with
    | some k => ({ st with rb := { st.rb with expiry := k } }, "ok")
    | none => (st, "bad-op")
  | ["send", s, h] => match s.toNat?, bytesOfHex h with
    | some seq, some m =>
      match segments st.P seq m with
      | none => (st, "err too-large")
      | some ds =>
        let enc := ds.map (·.encode)
        (st, "dgs " ++ toString (enc.foldl (fun a b => a + b.length) 0) ++ " " ++ joinWith "," (enc.map hexOfBytes))
    | _, _ => (st, "bad-op")
  | ["recv", n, h] => match n.toNat?, bytesOfHex h with
    | some now, some bs =>
      let (rb', out) := st.rb.receive now bs
      ({ st with rb := rb' }, match out with
        | .none => "none"
        | .msg _ m => "msg " ++ hexOfBytes m)
    | _, _ => (st, "bad-op")
  | ["slot", n] => match n.toNat? with
    | some seq => (st, match alLookup seq st.rb.bufs with
        | none => "noslot"
        | some sl => "slot " ++ toString sl.msgs.length ++ " " ++ toString sl.segCount)
    | none => (st, "bad-op")
  | ["expire", n] => match n.toNat? with
    | some now =>
      let rb' := st.rb.removeExpired now
      ({ st with rb := rb' }, "live " ++ joinWith "," ((sortNat (rb'.bufs.map (·.1))).map toString))
    | none => (st, "bad-op")
  | _ => (st, "bad-op")

end Driver.Seg
