import Iscp.Model.Rec
import Driver.Util
/- topic `rec` (C18): new <budget> · script o,o,.. · write hex · burst hex,hex,.. · failw · bornfailing k (the next k incarnations are born with failing writes) · failr · deliver hex · ping · read · close · dials · logs -/
namespace Driver.Rec
open Iscp Iscp.Rec Driver

def parseDial : String → Dial
  | "fail" => .fail | "badhs" => .badHandshake | _ => .ok

def showOut : Out → String
  | .ok => "ok" | .err => "err" | .wrote i => "ok " ++ toString i | .msg b => "msg " ++ hexOfBytes b
  | .state i => "inc " ++ toString i | .deadState => "dead"

def sortStr (l : List String) : List String :=
  l.foldl (fun acc x => (acc.filter (· ≤ x)) ++ [x] ++ (acc.filter (· > x))) []

def burst (s : St) : List Bytes → List String → St × List String
  | [], acc => (s, acc)
  | b :: r, acc => let (s', o) := write s b; burst s' r (acc ++ [hexOfBytes b ++ ":" ++ (match o with | .wrote _ => "ok" | _ => "err")])

def step (s : St) (line : String) : St × String :=
  let u (r : St × Out) : St × String := (r.1, showOut r.2)
  match words line with
  | ["new", b] => ({ budget := b.toNat?.getD 3 }, "ok")
  | ["new", b, _] => ({ budget := b.toNat?.getD 3 }, "ok")
  | ["gatedpair", a, b] =>
    (match bytesOfHex a, bytesOfHex b with
    | some a, some b =>
      -- A's write is in progress when the connection breaks: the write loop redials (as often as the fresh connection's
      -- write fails again) and retries A, then serves B
      let s1 := { s with failW := true }
      let (s2, oa) := write s1 a
      let (s3, ob) := write s2 b
      let sh (o : Out) := match o with | .wrote _ => "ok" | _ => "err"
      (s3, "pair " ++ sh oa ++ " " ++ sh ob)
    | _, _ => (s, "bad-op"))
  | ["script", l] => u (Iscp.Rec.step s (.script (if l = "_" then [] else (l.splitOn ",").map parseDial)))
  | ["write", h] => (match bytesOfHex h with | some b => u (write s b) | none => (s, "bad-op"))
  | ["burst", l] =>
    (match (l.splitOn ",").mapM bytesOfHex with
    | some bs => let (s', outs) := burst s bs []; (s', "burst " ++ joinWith "," (sortStr outs))
    | none => (s, "bad-op"))
  | ["closeerr"] => (s, "ok")
  -- concurrent writers on a healthy connection: every write is accepted once (the harness's storm writes are not part of the
  -- logs compared afterwards: the case ends with it)
  | ["wstorm", _, _] => (s, "wstorm ok")
  | ["failw"] => u (Iscp.Rec.step s .failW)
  | ["bornfailing", k] => u (Iscp.Rec.step s (.bornFailing (k.toNat?.getD 0)))
  | ["failr"] => u (failRead s)
  | ["failr", _] => u (failRead s)   -- the kind of read error (anything but the peer's normal close) makes no difference
  | ["deliver", h] => (match bytesOfHex h with | some b => u (deliver s b) | none => (s, "bad-op"))
  | ["ping"] => (match deliver s pingMsg with
      | (s', .wrote i) => (s', "pong " ++ toString i)
      | (s', _) => (s', "nopong"))
  | ["read"] => u (read s)
  | ["close"] => u (Iscp.Rec.step s .close)
  | ["dials"] => (s, if s.dials.head? = some false ∧ s.dials.tail.all (· = true) then "dials first-plain-then-reconnect"
      else "dials " ++ joinWith "," (s.dials.map fun b => if b then "1" else "0"))
  | ["logs"] => (s, "logs " ++ joinWith ";" ((List.range (s.inc + 1)).map fun i =>
      toString i ++ "=" ++ joinWith "," (sortStr (((alGet i s.logs).getD []).map hexOfBytes))))
  | ["seqlogs"] => (s, "seq " ++ joinWith "," ((allLogged s).map hexOfBytes))
  | _ => (s, "bad-op")

end Driver.Rec
