/- Line-protocol helpers shared by all driver topics (core Lean only). -/
namespace Driver

def hexDigit (n : Nat) : Char :=
  if n < 10 then Char.ofNat (48 + n) else Char.ofNat (87 + n)

def hexOfBytes (bs : List Nat) : String :=
  if bs.isEmpty then "-" else
  String.ofList (bs.flatMap fun b => [hexDigit (b / 16 % 16), hexDigit (b % 16)])

def hexVal (c : Char) : Option Nat :=
  if '0' ≤ c ∧ c ≤ '9' then some (c.toNat - 48)
  else if 'a' ≤ c ∧ c ≤ 'f' then some (c.toNat - 87)
  else if 'A' ≤ c ∧ c ≤ 'F' then some (c.toNat - 55)
  else none

def bytesOfHexAux : List Char → List Nat → Option (List Nat)
  | [], acc => some acc.reverse
  | [_], _ => none
  | a :: b :: r, acc =>
    match hexVal a, hexVal b with
    | some x, some y => bytesOfHexAux r ((x * 16 + y) :: acc)
    | _, _ => none

/-- "-" is the empty byte string. -/
def bytesOfHex (s : String) : Option (List Nat) :=
  if s = "-" then some [] else bytesOfHexAux s.toList []

def words (line : String) : List String :=
  (line.splitOn " ").filter (· ≠ "")

def joinWith (sep : String) (l : List String) : String := sep.intercalate l

/-- insertion sort for canonical output of small lists -/
def sortNat (l : List Nat) : List Nat :=
  l.foldl (fun acc x => (acc.filter (· ≤ x)) ++ [x] ++ (acc.filter (· > x))) []

end Driver
