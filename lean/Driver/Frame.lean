import Iscp.Model.Frame
import Driver.Util
/- topic `frame` (C13):
   cfg <enable> <disableTakeover> <bits>   → mode=…            (resets both windows)
   w <content>                              → ok n=<len> wwin=<len>:<fnv> rwin=<len>:<fnv>   (one message through writer and reader)
   frame <content>                          → hex of the length-prefixed frame
   deframe <hex>                            → n=<k> [<len>:<fnv> …] rest=<len>
   content = hex:<hex> | rep:<byte>:<n> | lcg:<seed>:<n>
   big …, conc …, real …                    → `-` (oracle-only ops on the implementation) -/
namespace Driver.Frame
open Iscp.Frame Driver

structure St where
  mode : Mode := .off
  wwin : Bytes := []
  rwin : Bytes := []

def fnv (bs : Bytes) : Nat :=
  bs.foldl (fun h b => ((h ^^^ b.toNat) * 16777619) % 4294967296) 2166136261

def lcgBytes : Nat → Nat → List UInt8 → List UInt8
  | 0, _, acc => acc.reverse
  | n + 1, x, acc =>
    let x' := (x * 1103515245 + 12345) % 2147483648
    lcgBytes n x' (UInt8.ofNat (x' / 65536 % 256) :: acc)

def content (s : String) : Option Bytes :=
  match s.splitOn ":" with
  | ["hex", h] => (bytesOfHex h).map (·.map UInt8.ofNat)
  | ["rep", b, n] => some (List.replicate (n.toNat?.getD 0) (UInt8.ofNat (b.toNat?.getD 0)))
  | ["lcg", seed, n] => some (lcgBytes (n.toNat?.getD 0) (seed.toNat?.getD 0) [])
  | _ => none

def sig (b : Bytes) : String := s!"{b.length}:{fnv b}"

def showMode : Mode → String
  | .off => "mode=off"
  | .perMessage => "mode=permsg"
  | .takeover w => s!"mode=takeover:{w}"

def step (s : St) (line : String) : St × String :=
  match words line with
  | ["cfg", e, d, b] =>
    let m := modeOf (e = "1") (d = "1") (b.toNat?.getD 0)
    ({ mode := m }, showMode m)
  | ["w", c] =>
    match content c with
    | none => (s, "bad-op")
    | some m =>
      let (ww, x) := send idCodec s.mode s.wwin m
      match recv idCodec s.mode s.rwin x with
      | none => (s, "decode-error")
      | some (rw, m') =>
        ({ s with wwin := ww, rwin := rw },
         (if m' = m then "ok" else "mismatch") ++ s!" n={m.length} wwin={sig ww} rwin={sig rw}")
  | ["frame", c] =>
    match content c with
    | none => (s, "bad-op")
    | some m => (s, hexOfBytes ((frame m).map (·.toNat)))
  | ["deframe", h] =>
    match bytesOfHex h with
    | none => (s, "bad-op")
    | some bs =>
      let bytes : Bytes := bs.map UInt8.ofNat
      let (ms, r) := deframeAll (bytes.length + 1) bytes
      (s, s!"n={ms.length} [{joinWith " " (ms.map sig)}] rest={r.length}")
  | "big" :: _ => (s, "-")
  | "conc" :: _ => (s, "-")
  | "real" :: _ => (s, "-")
  | _ => (s, "bad-op")

end Driver.Frame
