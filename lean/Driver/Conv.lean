import Iscp.Model.Conv
import Iscp.Gen.Enums
import Driver.Util
/- topic `conv` (C11/C12): rc2w v · w2rc v · qos2w v · w2qos v · durs ns · durms ns · elapsed ns · gate max n · msg … (oracle-only ops echo `-`) -/
namespace Driver.Conv
open Iscp.Conv Iscp.Gen.Enums Driver

def showOpt : Option Int → String
  | some v => toString v
  | none => "err"

def step (u : Unit) (line : String) : Unit × String :=
  (u, match words line with
  | ["rc2w", v] => showOpt (lookup rcToWire (v.toInt?.getD 0))
  | ["w2rc", v] => showOpt (lookup rcToLib (v.toInt?.getD 0))
  | ["qos2w", v] => showOpt (lookup qosToWire (v.toInt?.getD 0))
  | ["w2qos", v] => showOpt (lookup qosToLib (v.toInt?.getD 0))
  | ["durs", n] => toString (durFromWireS (durToWireS (n.toNat?.getD 0)))
  | ["durms", n] => toString (durFromWireMs (durToWireMs (n.toNat?.getD 0)))
  | ["elapsed", n] => (match n.toInt? with
      | some v => toString (elapsedFromWire (elapsedToWire v))
      | none => "bad-op")
  | ["gate", m, n] => if sizeGate (m.toNat?.getD 0) (n.toNat?.getD 0) then "pass" else "too-large"
  | "msg" :: _ => "-"
  | "fuzz" :: _ => "-"
  | "frames" :: _ => "-"
  | _ => "bad-op")

end Driver.Conv
