import Driver.Seg
import Driver.Neg
import Driver.Store
import Driver.Wire
import Driver.Multi
import Driver.Rec
import Driver.Up
import Driver.Down
import Driver.Call
import Driver.KA
import Driver.Conv
import Driver.Frame
import Driver.ConnM
/- Line-protocol driver: `driver <topic>` reads one op per line on stdin, prints one line per op. -/
open Driver

partial def loop {σ} (h : IO.FS.Stream) (out : IO.FS.Stream) (step : σ → String → σ × String) (s : σ) : IO Unit := do
  let line ← h.getLine
  if line.isEmpty then return ()
  let line := String.ofList (line.toList.filter (fun c => c != (Char.ofNat 10) && c != (Char.ofNat 13)))
  if line.startsWith "#" then
    out.putStrLn line
    loop h out step s
  else
    let (s', o) := step s line
    out.putStrLn o
    loop h out step s'

def main (args : List String) : IO UInt32 := do
  let stdin ← IO.getStdin
  let stdout ← IO.getStdout
  match args with
  | ["seg"] => loop stdin stdout Driver.Seg.step {}; return 0
  | ["neg"] => loop stdin stdout Driver.Neg.step (); return 0
  | ["store"] => loop stdin stdout Driver.Store.step {}; return 0
  | ["wire"] => loop stdin stdout Driver.Wire.step {}; return 0
  | ["multi"] => loop stdin stdout Driver.Multi.step {}; return 0
  | ["rec"] => loop stdin stdout Driver.Rec.step {}; return 0
  | ["up"] => loop stdin stdout Driver.Up.step {}; return 0
  | ["down"] => loop stdin stdout Driver.Down.step {}; return 0
  | ["call"] => loop stdin stdout Driver.Call.step {}; return 0
  | ["ka"] => loop stdin stdout Driver.KA.step (); return 0
  | ["conv"] => loop stdin stdout Driver.Conv.step (); return 0
  | ["frame"] => loop stdin stdout Driver.Frame.step {}; return 0
  | ["conn"] => loop stdin stdout Driver.ConnM.step {}; return 0
  | _ => IO.eprintln "usage: driver <topic>"; return 2
