import Iscp.Model.Seg
