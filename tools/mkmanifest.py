#!/usr/bin/env python3
"""Writes MANIFEST.json from checklib/props.py + tools/manifest_texts.json (single source of truth)."""
import json, os, sys, subprocess
ROOT = os.path.dirname(os.path.dirname(os.path.abspath(__file__)))
sys.path.insert(0, ROOT)
from checklib import props
texts = json.load(open(os.path.join(ROOT, 'tools/manifest_texts.json')))
ids = [json.loads(l)['id'] for l in open(os.path.join(ROOT, 'properties.jsonl'))]
hook_commits = texts['hook_commits']
m = {
 "version": 1,
 "setup_cmd": "cd /verif && ./setup.sh",
 "hooks": {"guard": "verif", "enable": "go build -tags verif (harness module /verif/go, replace github.com/aptpod/iscp-go => /repo)",
           "baseline_off_cmd": "cd /repo && GOFLAGS=-mod=mod go test -json -vet=off -count=1 -timeout 25m ./...",
           "source_commits": hook_commits, "add_only": True},
 "engines": [{"name": "lean-proof+correspondence", "path": "/verif/check", "serves_properties": [i for i in ids if i in props.PROPS],
              "kind_free_text": "Lean 4 theorems over executable models (lean/Iscp), tied to /repo by regenerated Gen facts (go/extract) and a line-protocol correspondence check (go/corr/* vs lean/Driver)"}],
 "checks": [], "not_applicable": [],
 "notes": texts.get('notes', ''),
}
for i in ids:
    if i in props.PROPS and i in texts['checks']:
        t = texts['checks'][i]
        m['checks'].append({
            "property_id": i, "quick_cmd": f"cd /verif && ./check {i} --tier quick", "thorough_cmd": f"cd /verif && ./check {i} --tier thorough",
            "evidence_file": f"/verif/evidence/{i}.json", "replay_cmd_template": f"cd /verif && ./check {i} --replay {{path}}",
            "engine": "lean-proof+correspondence",
            "level_claimed": {"category": "proof", "text": t['text'], "design_ref": t.get('design_ref', 'DESIGN.md section 6 ' + i)},
            "level_note": t['note'], "technique": t['technique']})
    else:
        m['not_applicable'].append({"property_id": i, "reason": texts['not_applicable'].get(i, "no check built yet in this round (planned, see DESIGN.md section 6); not claimed")})
json.dump(m, open(os.path.join(ROOT, 'MANIFEST.json'), 'w'), indent=1)
print('checks:', [c['property_id'] for c in m['checks']], 'not_applicable:', len(m['not_applicable']))
