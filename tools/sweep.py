#!/usr/bin/env python3
"""tools/sweep.py [-j lanes] [-s seed,seed,...] [Cxx ...]  — run ./check for the given properties and seeds, `lanes` at a time
(a load test of the checks on the unchanged tree: every line must end in violations=0). Evidence files are saved and restored."""
import sys, os, subprocess, concurrent.futures, json, shutil, time
ROOT = os.path.dirname(os.path.dirname(os.path.abspath(__file__)))
args = sys.argv[1:]
lanes, seeds, props = 4, [1], []
i = 0
while i < len(args):
    if args[i] == '-j': lanes = int(args[i + 1]); i += 2
    elif args[i] == '-s': seeds = [int(x) for x in args[i + 1].split(',')]; i += 2
    else: props.append(args[i]); i += 1
if not props:
    props = [f'C{k:02d}' for k in range(1, 21)]
saved = {p: open(os.path.join(ROOT, 'evidence', p + '.json')).read() for p in props if os.path.exists(os.path.join(ROOT, 'evidence', p + '.json'))}
env = dict(os.environ, GOFLAGS='-mod=mod', GOPROXY='off')
def one(job):
    p, s = job
    t0 = time.time()
    r = subprocess.run(f'timeout 3000 ./check {p}', shell=True, cwd=ROOT, env=dict(env, VERIF_SEED=str(s)), capture_output=True, text=True)
    last = [l for l in r.stdout.splitlines() if l.startswith('[done]') or l.startswith('VIOLATION')]
    extra = ''
    if r.returncode != 0:
        try:
            ev = json.load(open(os.path.join(ROOT, 'evidence', p + '.json')))
            extra = ' EXTRA=' + json.dumps(ev.get('coverage', {}).get('extra', {}))[:600]
            for l in r.stdout.splitlines():
                if l.startswith('VIOLATION'):
                    f = l.split('replay=')[1].split()[0]
                    extra += ' WHAT=' + json.load(open(f)).get('what', '')[:300]
                    break
        except Exception as e:
            extra = ' (no evidence: %s)' % e
    return p, s, r.returncode, ' | '.join(last)[-300:] + extra, round(time.time() - t0)
# never run two checks of the same property at once (they share the evidence file): order jobs seed-major
jobs = [(p, s) for s in seeds for p in props]
bad = 0
with concurrent.futures.ThreadPoolExecutor(lanes) as ex:
    for p, s, rc, last, dt in ex.map(one, jobs):
        print(p, 'seed', s, 'rc', rc, f'{dt}s', last, flush=True)
        bad += rc != 0
for p, txt in saved.items():
    open(os.path.join(ROOT, 'evidence', p + '.json'), 'w').write(txt)
print('sweep finished, failing runs:', bad)
