#!/usr/bin/env python3
"""tools/seed_reeval.py [-j lanes] [ids...] — regression test of the checks: every kept seeded change is applied to a scratch copy
of /repo (never to /repo itself), the property's quick check is run from a scratch copy of /verif against it, and the outcome is
compared with what meta.json records. Prints one line per change; exit 1 if a change that was caught is no longer caught."""
import sys, os, json, subprocess, shutil, glob, concurrent.futures, re, time
ROOT = os.path.dirname(os.path.dirname(os.path.abspath(__file__)))
args = sys.argv[1:]
lanes = 3
if args and args[0] == '-j':
    lanes = int(args[1]); args = args[2:]
ids = args or sorted(os.path.basename(d) for d in glob.glob(os.path.join(ROOT, 'seeded', '*')))
env = dict(os.environ, GOFLAGS='-mod=mod', GOPROXY='off')
def sh(cmd, cwd=None, timeout=3600):
    p = subprocess.run(cmd, shell=True, cwd=cwd, env=env, stdout=subprocess.PIPE, stderr=subprocess.STDOUT, text=True, timeout=timeout)
    return p.returncode, p.stdout
def one(job):
    lane, name = job
    pid = name.split('-')[0]
    sd = os.path.join(ROOT, 'seeded', name)
    meta = json.load(open(os.path.join(sd, 'meta.json')))
    want = (meta.get('check') or {}).get('caught')
    if want is None:
        return name, 'obsolete', 'skipped'
    ev = f'/tmp/reeval-{lane}'
    sh(f'mkdir -p {ev} && rsync -a --delete /repo/ {ev}/repo/ && rsync -a --delete --exclude .scratch --exclude replays {ROOT}/ {ev}/verif/')
    sh('git checkout -- . && git clean -fdq', cwd=f'{ev}/repo')
    sh(f"sed -i 's|=> /repo|=> {ev}/repo|' {ev}/verif/go/go.mod")
    rc, out = sh(f'git apply {sd}/patch.diff', cwd=f'{ev}/repo')
    if rc != 0:
        return name, 'patch-does-not-apply', out.strip()[-120:]
    t0 = time.time()
    rc, out = sh(f'VERIF_REPO={ev}/repo timeout 3000 ./check {pid} --tier quick', cwd=f'{ev}/verif')
    vl = [l for l in out.splitlines() if l.startswith('VIOLATION')]
    caught = rc != 0 and bool(vl)
    return name, 'caught' if caught else 'MISSED', f'{round(time.time()-t0)}s ' + (vl[0].replace(ev, '')[:110] if vl else out[-150:].replace('\n', ' '))
# lanes are tied to scratch directories: partition the ids
jobs = [(k % lanes, n) for k, n in enumerate(ids)]
bad = 0
def lane_runner(lane):
    res = []
    for l, n in jobs:
        if l == lane:
            r = one((l, n)); print(*r, flush=True); res.append(r)
    return res
with concurrent.futures.ThreadPoolExecutor(lanes) as ex:
    for res in ex.map(lane_runner, range(lanes)):
        bad += sum(1 for r in res if r[1] == 'MISSED')
for lane in range(lanes):
    shutil.rmtree(f'/tmp/reeval-{lane}', ignore_errors=True)
print('re-evaluation finished; no longer caught:', bad)
sys.exit(1 if bad else 0)
