#!/usr/bin/env python3
"""Regenerate every Gen file (used by setup; each check regenerates its own topics again)."""
import os, sys, subprocess
ROOT = os.path.dirname(os.path.dirname(os.path.abspath(__file__)))
sys.path.insert(0, ROOT)
from checklib import props
topics = sorted({g for p in props.PROPS.values() for g in p.get('gen', [])})
if topics:
    env = dict(os.environ, GOFLAGS='-mod=mod', GOPROXY='off')
    env.pop('GOTOOLCHAIN', None); env.pop('GOSUMDB', None)
    subprocess.check_call(['go', 'build', '-o', 'bin/extract', './extract'], cwd=os.path.join(ROOT, 'go'), env=env)
    for t in topics:
        subprocess.check_call([os.path.join(ROOT, 'go/bin/extract'), '-repo', os.environ.get('VERIF_REPO', '/repo'), '-topic', t,
                               '-out', os.path.join(ROOT, 'lean/Iscp/Gen', t + '.lean')], cwd=os.path.join(ROOT, 'go'), env=env)
