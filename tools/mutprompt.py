#!/usr/bin/env python3
"""prints the prompt for a mutation-seeding sub-agent: only the property text and its scratch worktree"""
import json, sys
pid, wt = sys.argv[1], sys.argv[2]
n = sys.argv[3] if len(sys.argv) > 3 else '2'
focus = sys.argv[4] if len(sys.argv) > 4 else ''   # optional: mechanisms (from the property's own anchor list) the mutants should involve
p = next(json.loads(l) for l in open('/verif/properties.jsonl') if json.loads(l)['id'] == pid)
print(f"""You are testing how good a verification harness is by writing realistic regressions for it to catch. You work ONLY inside the git worktree {wt} (a checkout of the Go library github.com/aptpod/iscp-go, a client for the iSCP v2 telemetry streaming protocol). Do not read or write anything under /verif or /repo. No network: run Go with `export GOFLAGS=-mod=mod GOPROXY=off` in every shell call (do NOT set GOTOOLCHAIN or GOSUMDB). The full test suite is `cd {wt} && go test -vet=off -count=1 ./...` (about 15-60 s).

PROPERTY ({pid}: {p['title']})
{p['statement']}
Quantified: {p['quantifier']['text']}
Code it is anchored in: {', '.join(p['anchors']['files'])}

TASK: produce {n} different, independent code changes ("mutants") to the library (non-test .go files, not files with a `//go:build verif` tag) each of which BREAKS this property while the library still compiles and the whole existing test suite still passes. Each change must be realistic (the kind of slip a maintainer could make in a refactor or 'optimisation': an off-by-one, a wrong comparison, a moved or dropped statement, a lock released early, a wrong map key, a condition inverted on a rare path, state not reset, two sites that each look fine alone ...) and must need something SPECIFIC to manifest - a particular input size or value, a particular interleaving, a fault at a particular point, a multi-step sequence of operations - rather than failing on the very first ordinary use. Prefer small diffs (1-10 lines). The mutants should break the property in different ways / at different code sites.

For each mutant i (1..{n}) deliver, in the directory {wt}/_mut/m<i>/ :
  - patch.diff : `git diff` of the change against the worktree's HEAD (only the library change, not the demo),
  - demo_test.go (or demo/main.go): a demonstration - a Go test or small program using the library's packages - that FAILS (or prints a clear FAIL line / exits non-zero) with the change applied and PASSES without it. Say in a header comment where the file must be placed (e.g. copy to {wt}/transport/xyz_demo_test.go) and the exact command to run it.
  - note.txt : which part of the property it breaks, what it needs in order to manifest, and why the existing tests do not notice.
Procedure you must follow for every mutant: apply the change; run the full test suite and confirm it passes (if a test fails, discard or adjust the mutant); run the demo and confirm it fails; revert the change (`git checkout -- .` for tracked files) and confirm the demo passes; keep only mutants for which all of this holds. Leave the worktree's tracked files unmodified at the end (everything you deliver lives under _mut/). Some existing tests are timing-sensitive and occasionally flaky on their own; re-run once before concluding that your change broke a test.

""" + (f"FOCUS: spread the mutants over different mechanisms; at least one mutant each must involve: {focus} (these are mechanisms named in the property's anchor list; the anchors of the property are: " + '; '.join(m['name'] + ' @ ' + m['where'] for m in p['anchors'].get('mechanism', [])) + ").\n\n" if focus else '') + f"""Final answer: for each mutant, one paragraph: file/function changed, what breaks, how it manifests, and the commands you ran with their outcomes.""")
