#!/usr/bin/env python3
"""tools/seed_eval.py <Cxx> <worktree> [mutant dirs...]

For every mutant delivered by a seeding sub-agent under <worktree>/_mut/m*/ :
 1. confirm it myself in the scratch worktree: patch applies, library builds, the demo FAILS with the patch and PASSES
    without it (demo placement/run command are read from the 'Place:'/'Run:' (or cp/cd) header lines), optionally the
    full test suite passes with the patch (--suite);
 2. copy it to /verif/seeded/<Cxx>-<name>/ (patch.diff, demo, meta.json);
 3. apply it to /repo, run ./check <Cxx> (quick), undo it straight afterwards, record whether the check caught it.
"""
import sys, os, re, json, subprocess, shutil, glob, time

ROOT = os.path.dirname(os.path.dirname(os.path.abspath(__file__)))
ENV = dict(os.environ, GOFLAGS='-mod=mod', GOPROXY='off')
ENV.pop('GOTOOLCHAIN', None); ENV.pop('GOSUMDB', None)


def sh(cmd, cwd=None, timeout=1800):
    p = subprocess.run(cmd, shell=True, cwd=cwd, env=ENV, stdout=subprocess.PIPE, stderr=subprocess.STDOUT, text=True, timeout=timeout)
    return p.returncode, p.stdout


def main():
    args = [a for a in sys.argv[1:] if not a.startswith('--')]
    suite = '--suite' in sys.argv
    nocheck = '--nocheck' in sys.argv
    sandbox = '--sandbox' in sys.argv   # run the check in a scratch copy of /verif + /repo (so that /repo stays free meanwhile)
    pid, wt = args[0], args[1]
    muts = args[2:] or sorted(glob.glob(os.path.join(wt, '_mut', 'm*')))
    results = []
    for m in muts:
        name = os.path.basename(m.rstrip('/'))
        patch = os.path.join(m, 'patch.diff')
        demos = [f for f in os.listdir(m) if f.startswith('demo')]
        res = {'mutant': f'{pid}-{name}', 'property': pid}
        if not os.path.exists(patch) or not demos:
            res['status'] = 'incomplete delivery'; results.append(res); continue
        demo = os.path.join(m, demos[0])
        if os.path.isdir(demo):
            demo_files = [os.path.join(demo, f) for f in os.listdir(demo)]
            head = open(demo_files[0]).read(3000)
        else:
            head = open(demo).read(3000)
        note = open(os.path.join(m, 'note.txt')).read() if os.path.exists(os.path.join(m, 'note.txt')) else ''
        flat = re.sub(r'\\\s*\n\s*(//)?\s*', ' ', head)          # join continuation lines
        flat = re.sub(r'^\s*//\s?', '', flat, flags=re.M)
        dests = [d for d in re.findall(r'(' + re.escape(wt) + r'/[\w./-]+\.go)', flat) if '/_mut/' not in d]
        gocmd = re.search(r'(go (?:test|run)[^\n`]*)', flat)
        if not dests or not gocmd:
            res['status'] = 'cannot parse Place/Run header'; res['head'] = head[:400]; results.append(res); continue
        src = demo if not os.path.isdir(demo) else demo_files[0]
        os.makedirs(os.path.dirname(dests[0]), exist_ok=True)
        place_cmd = f'cp {src} {dests[0]}'
        run_cmd = f'cd {wt} && ' + gocmd.group(1).strip()
        dest = place_cmd.split()[-1]
        sh('git checkout -- . ', cwd=wt)
        # without the patch: demo passes
        sh(place_cmd, cwd=wt)
        rc0, out0 = sh(run_cmd, cwd=wt)
        # with the patch
        rca, outa = sh(f'git apply {patch}', cwd=wt)
        rcb, outb = sh('go build ./...', cwd=wt)
        rc1, out1 = sh(run_cmd, cwd=wt)
        rcs = None
        if suite:
            if os.path.exists(dest):
                os.remove(dest) if os.path.isfile(dest) else shutil.rmtree(dest)
            rcs, outs = sh('go test -vet=off -count=1 ./...', cwd=wt, timeout=3000)
            if rcs != 0:
                rcs, outs = sh('go test -vet=off -count=1 ./...', cwd=wt, timeout=3000)
            res['suite_tail'] = outs[-600:] if rcs != 0 else 'ok'
        sh('git checkout -- .', cwd=wt)
        if os.path.exists(dest):
            os.remove(dest) if os.path.isfile(dest) else shutil.rmtree(dest)
        res.update({'applies': rca == 0, 'builds': rcb == 0, 'demo_passes_without': rc0 == 0, 'demo_fails_with': rc1 != 0,
                    'suite_passes_with': (rcs == 0) if rcs is not None else 'not re-run (agent reported pass)',
                    'demo_place': place_cmd, 'demo_run': run_cmd})
        confirmed = rca == 0 and rcb == 0 and rc0 == 0 and rc1 != 0 and (rcs in (None, 0))
        res['confirmed'] = confirmed
        if not confirmed:
            res['status'] = 'not confirmed'; res['out_without'] = out0[-400:]; res['out_with'] = out1[-400:]
            results.append(res); continue
        sd = os.path.join(ROOT, 'seeded', f'{pid}-{name}')
        shutil.rmtree(sd, ignore_errors=True)
        os.makedirs(sd)
        shutil.copy(patch, os.path.join(sd, 'patch.diff'))
        if os.path.isdir(demo):
            shutil.copytree(demo, os.path.join(sd, os.path.basename(demo)))
        else:
            shutil.copy(demo, os.path.join(sd, os.path.basename(demo)))
        # run my check against it
        caught, line, wall = None, '', 0
        if not nocheck:
            if sandbox:
                ev = f'/tmp/ev-{pid}'
                os.makedirs(ev, exist_ok=True)
                sh(f'rsync -a --delete /repo/ {ev}/repo/ && rsync -a --delete --exclude .scratch --exclude replays {ROOT}/ {ev}/verif/')
                sh(f'git checkout -- . && git clean -fdq', cwd=f'{ev}/repo')
                sh(f"sed -i 's|=> /repo|=> {ev}/repo|' {ev}/verif/go/go.mod")
                rc, out = sh(f'git apply {os.path.join(sd, "patch.diff")}', cwd=f'{ev}/repo')
                t0 = time.time()
                rcc, outc = sh(f'VERIF_REPO={ev}/repo ./check {pid} --tier quick', cwd=f'{ev}/verif', timeout=3000)
                for l in outc.splitlines():
                    mm = re.match(r'VIOLATION property=\S+ replay=(\S+)', l)
                    if mm and os.path.exists(mm.group(1)):
                        shutil.copy(mm.group(1), os.path.join(sd, 'replay.json'))
                        break
                outc = outc.replace(f'{ev}/verif', '/verif')
            else:
                st, _ = sh('git status --porcelain', cwd='/repo')
                if st != 0 or _.strip():
                    res['status'] = '/repo not clean; skipped check'; results.append(res); continue
                evf = os.path.join(ROOT, 'evidence', pid + '.json')
                ev_saved = open(evf).read() if os.path.exists(evf) else None   # evidence must describe the unchanged tree
                rc, out = sh(f'git apply {os.path.join(sd, "patch.diff")}', cwd='/repo')
                t0 = time.time()
                try:
                    rcc, outc = sh(f'./check {pid} --tier quick', cwd=ROOT, timeout=3000)
                finally:
                    sh('git checkout -- .', cwd='/repo')
                    if ev_saved is not None:
                        open(evf, 'w').write(ev_saved)
            wall = time.time() - t0
            vl = [l for l in outc.splitlines() if l.startswith('VIOLATION')]
            caught = rcc != 0 and bool(vl)
            line = vl[0] if vl else outc[-300:]
            res['check_output_tail'] = '\n'.join(outc.splitlines()[-6:])
        res.update({'caught_by_check': caught, 'violation_line': line, 'check_wall_s': round(wall, 1), 'status': 'kept'})
        meta = {'property': pid, 'breaks': note[:1500], 'needs_to_manifest': note[:1500], 'confirmed_by_me': {
            'patch_applies_and_builds': True, 'demo_passes_without_patch': True, 'demo_fails_with_patch': True,
            'suite_with_patch': res['suite_passes_with'], 'demo_place': place_cmd, 'demo_run': run_cmd},
            'check': {'cmd': f'./check {pid} --tier quick', 'caught': caught, 'violation_line': line, 'wall_s': round(wall, 1)}}
        json.dump(meta, open(os.path.join(sd, 'meta.json'), 'w'), indent=1)
        results.append(res)
    for r in results:
        print(json.dumps({k: v for k, v in r.items() if k not in ('check_output_tail',)}, indent=None)[:900])
        if r.get('check_output_tail') and not r.get('caught_by_check'):
            print('   check tail:', r['check_output_tail'][-700:])


if __name__ == '__main__':
    main()
