#!/usr/bin/env python3
"""tools/seed_recheck.py <Cxx-mN> [note]  — re-run ./check <Cxx> against a kept seeded change (applied to /repo, undone straight
afterwards) and record the outcome in seeded/<Cxx-mN>/meta.json (history of earlier outcomes is kept)."""
import sys, os, json, subprocess, time, re, shutil
ROOT = os.path.dirname(os.path.dirname(os.path.abspath(__file__)))
ENV = dict(os.environ, GOFLAGS='-mod=mod', GOPROXY='off')
name = sys.argv[1]; note = sys.argv[2] if len(sys.argv) > 2 else ''
pid = name.split('-')[0]
sd = os.path.join(ROOT, 'seeded', name)
st = subprocess.run('git status --porcelain', shell=True, cwd='/repo', capture_output=True, text=True).stdout.strip()
if st:
    sys.exit('/repo not clean')
ev = os.path.join(ROOT, 'evidence', pid + '.json')
ev_saved = open(ev).read() if os.path.exists(ev) else None   # evidence must describe the unchanged tree: restore it afterwards
subprocess.check_call(f'git apply {sd}/patch.diff', shell=True, cwd='/repo')
t0 = time.time()
try:
    p = subprocess.run(f'timeout 3000 ./check {pid} --tier quick', shell=True, cwd=ROOT, env=ENV, capture_output=True, text=True)
finally:
    subprocess.check_call('git checkout -- .', shell=True, cwd='/repo')
    if ev_saved is not None:
        open(ev, 'w').write(ev_saved)
out = p.stdout + p.stderr
vl = [l for l in out.splitlines() if l.startswith('VIOLATION')]
caught = p.returncode != 0 and bool(vl)
meta = json.load(open(os.path.join(sd, 'meta.json')))
meta.setdefault('history', []).append(meta.get('check'))
meta['check'] = {'cmd': f'./check {pid} --tier quick', 'caught': caught, 'violation_line': vl[0] if vl else out[-300:], 'wall_s': round(time.time() - t0, 1), 'note': note}
if vl:
    m = re.match(r'VIOLATION property=\S+ replay=(\S+)', vl[0])
    if m and os.path.exists(m.group(1)):
        shutil.copy(m.group(1), os.path.join(sd, 'replay.json'))
        meta['check']['what'] = json.load(open(m.group(1))).get('what', '')[:400]
json.dump(meta, open(os.path.join(sd, 'meta.json'), 'w'), indent=1)
print(name, 'caught' if caught else 'MISSED', meta['check']['violation_line'][:160])
